/* Function contract of tinyjambu_aead_check_tag (src/backend/tinyjambu-util.c), attached by re-declaration.
   C03: the result is 0 or -1, and -1 whenever ANY tag byte differs (ghost index tjv_j);
   C04: on -1 every plaintext byte is 0, on 0 every byte is unchanged (ghost index tjv_k);
   C06: frame = exactly plaintext[0 .. plaintext_len): nothing else in the same object (in place: the 8 tag bytes behind it). */
#ifndef TJV_C_UTIL_H
#define TJV_C_UTIL_H
#include <stddef.h>
#include <stdlib.h>
extern size_t tjv_j, tjv_k;   /* ghost indices chosen nondeterministically by the harness */
int tinyjambu_aead_check_tag
    (unsigned char *plaintext, size_t plaintext_len,
     const unsigned char *tag1, const unsigned char *tag2, size_t size)
__CPROVER_requires(plaintext_len <= ((size_t)1 << 40) && size <= 64)
__CPROVER_requires(__CPROVER_is_fresh(plaintext, plaintext_len))
__CPROVER_requires(__CPROVER_is_fresh(tag1, size))
__CPROVER_requires(__CPROVER_is_fresh(tag2, size))
__CPROVER_assigns(__CPROVER_object_upto(plaintext, plaintext_len))
__CPROVER_ensures(__CPROVER_return_value == 0 || __CPROVER_return_value == -1)
__CPROVER_ensures((tjv_j < size && tag1[tjv_j] != tag2[tjv_j]) ==> __CPROVER_return_value == -1)
__CPROVER_ensures((tjv_k < plaintext_len && __CPROVER_return_value == -1) ==> plaintext[tjv_k] == 0)
__CPROVER_ensures((tjv_k < plaintext_len && __CPROVER_return_value == 0) ==> plaintext[tjv_k] == __CPROVER_old(plaintext[tjv_k]))
;
#endif
