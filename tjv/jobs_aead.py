"""L1: AEAD / SIV real code against the spec monitor (C01-C04, C06, C08, C09)."""
LE = "__CPROVER_loop_entry"
MON_ASSIGNS = "M.pc, M.sub, M.pos, M.cur, M.o.gout, M.o.gout_set, M.tag_lo, M.tag_hi"
MON_TAGS = [
    (r"^perm call:|^setup call:|^absorb call:|^generate_tag call:|^check_tag call:|^leaf:", None),  # filled per job
]


def kw(nnn):
    return nnn // 32


def st_eq(ref, nnn, arrow):
    s = " && ".join("%s%ss[%d] == M.cur[%d]" % (ref, arrow, i, i) for i in range(4))
    k = " && ".join("%s%sk[%d] == M.kinv[%d]" % (ref, arrow, i, i) for i in range(kw(nnn)))
    return s + " && " + k


def common_files(nnn):
    return ["stubs/mon.c"]


def spec_tags(props):
    return [(r"^perm call:|^setup call:|^absorb call:|^generate_tag call:|^check_tag call:|^leaf:|^spec:", props)]


JOBS = []
for nnn in (128, 192, 256):
    common = "repo:src/backend/tinyjambu-aead-common-%d.c" % nnn
    fn_abs = "tinyjambu_absorb_%d" % nnn
    # ---------------- leaf contracts
    JOBS.append({
        "name": "leaf%d.setup" % nnn, "files": ["harness/h_leaf.c", "stubs/mon.c", common],
        "defs": ["NNN=%d" % nnn, "PROG=11"], "functions": ["tinyjambu_setup_%d" % nnn],
        "tags": spec_tags(["C01", "C02", "C08", "C09"]), "props": ["C01", "C02", "C08", "C09", "C06"],
        "unwind": 9, "unbounded": "all keys, nonces, domains, prior states (loop-free)", "cost": 3,
    })
    JOBS.append({
        "name": "leaf%d.tag" % nnn, "files": ["harness/h_leaf.c", "stubs/mon.c", common],
        "defs": ["NNN=%d" % nnn, "PROG=13"], "functions": ["tinyjambu_generate_tag_%d" % nnn],
        "tags": spec_tags(["C01", "C02", "C03", "C08", "C09"]), "props": ["C01", "C02", "C03", "C08", "C09", "C06"],
        "unwind": 9, "unbounded": "all keys and states (loop-free)", "cost": 3,
    })
    JOBS.append({
        "name": "leaf%d.absorb" % nnn, "files": ["harness/h_leaf.c", "stubs/mon.c", common],
        "defs": ["NNN=%d" % nnn, "PROG=12"], "functions": [fn_abs],
        "loops": [{
            "fn": fn_abs, "idx": 0, "line": r"size >= 4",
            "assigns": "data, size, __CPROVER_object_whole(state), " + MON_ASSIGNS,
            "inv": "M.pc == 0 && M.pos <= M.l_len && size == M.l_len - M.pos && data == M.l_ptr + M.pos && " + st_eq("state", nnn, "->"),
            "dec": "size",
            "map": {"data": fn_abs + "::data", "size": fn_abs + "::size", "state": fn_abs + "::state", "M": "M"},
        }],
        "tags": spec_tags(["C01", "C02", "C03", "C08", "C09"]), "props": ["C01", "C02", "C03", "C08", "C09", "C06"],
        "unwind": 9, "unbounded": "size <= 2^40, all data, keys, states, domains and round counts", "cost": 20,
    })
    JOBS.append(dict(JOBS[-1], name="leaf%d.absorb.al" % nnn, defs=["NNN=%d" % nnn, "PROG=12", "TJV_ALIGN"],
                     unbounded="size <= 2^40, stream at every alignment 0..3 inside a larger object, all data, keys, states, domains and round counts"))
    JOBS.append({
        "name": "leaf%d.absorb.b" % nnn, "files": ["harness/h_leaf.c", "stubs/mon.c", common],
        "defs": ["NNN=%d" % nnn, "PROG=12", "TJV_BOUND=23"], "functions": [fn_abs],
        "tags": spec_tags(["C01", "C02", "C03", "C08", "C09"]), "props": ["C01", "C02", "C03", "C08", "C09", "C06"],
        "unwind": 9, "bounded": "size <= 23 (loops unwound, no loop contract needed: robust stand-in for refactored loops)", "cost": 10,
    })

# ---------------------------------------------------------------- top-level functions
MON_ASSIGNS_TOP = "M.pc, M.sub, M.pos, M.cur, M.o.gout, M.o.gout_set"
GHOST_OUT = ("(M.o.gidx < M.pos ==> (M.o.gout_set && M.out[M.o.gidx] == M.o.gout)) && (M.o.gidx >= M.pos ==> !M.o.gout_set) && "
             "((M.len > 0 && M.o.gidx >= M.pos) ==> M.in[M.o.gidx] == M.in_g)")
TAGBYTE = "(unsigned char)((tjv_t < 4 ? M.tag_lo : M.tag_hi) >> (8 * (tjv_t & 3)))"
AEAD_PROPS = ["C01", "C02", "C03", "C04", "C06"]
SIV_PROPS = ["C08", "C09", "C04", "C06"]


def props_for(mode, kind):
    if mode == "aead":
        return ["C01", "C02", "C06"] if kind == "encrypt" else ["C01", "C03", "C04", "C06"]
    return ["C08", "C09", "C06"] if kind == "encrypt" else ["C08", "C04", "C06"]


def top_loop(fn, own_pc, nnn, enc, extra_inv):
    if enc:
        rem, inp, outp, line = "mlen", "m", "c", r"mlen >= 4"
    else:
        rem, inp, outp, line = "clen", "c", "m", r"clen >= 4"
    inv = ("M.pc == %d && M.pos <= M.len && %s == M.len - M.pos && %s == M.in + M.pos && %s == M.out + M.pos && " % (own_pc, rem, inp, outp)
           + st_eq("state", nnn, ".") + " && " + GHOST_OUT + (" && " + extra_inv if extra_inv else ""))
    # decrypt: only the plaintext region [out, out + len) may change - in place the 8 tag bytes behind it (same object)
    # are outside the frame and therefore known to be preserved; encrypt: body and tag live in one output object
    frame = "__CPROVER_object_whole(%s)" % outp if enc else "__CPROVER_object_upto(M.out, M.len)"
    return {"fn": fn, "idx": 0, "line": line,
            "assigns": "m, c, %s, data, state, %s, %s" % (rem, frame, MON_ASSIGNS_TOP),
            "inv": inv, "dec": rem,
            "map": {"m": fn + "::m", "c": fn + "::c", rem: fn + "::" + rem, "data": fn + "::1::data", "state": fn + "::1::state",
                    "M": "M", "tjv_t": "tjv_t"}}


TOP = {}
for nnn in (128, 192, 256):
    common = "repo:src/backend/tinyjambu-aead-common-%d.c" % nnn
    util = "repo:src/backend/tinyjambu-util.c"
    for prog, mode, kind, enc, own_pc in ((1, "aead", "encrypt", True, 2), (2, "aead", "decrypt", False, 2),
                                          (3, "siv", "encrypt", True, 5), (4, "siv", "decrypt", False, 1)):
        fn = "tinyjambu_%d_%s_%s" % (nnn, mode, kind)
        src = "repo:src/tinyjambu-%d-%s.c" % (nnn, mode)
        props = props_for(mode, kind)
        extra = ""
        if prog == 2 or prog == 4:
            extra = ""
        if prog == 3:
            extra = "M.out[M.len + tjv_t] == " + TAGBYTE
        for inplace in (False, True):
            nm = "%s%d.%s.%s" % (mode, nnn, kind[:3], "ui" if inplace else "u")
            JOBS.append({
                "name": nm, "files": ["harness/h_aead.c", "stubs/mon.c", src],
                "defs": ["NNN=%d" % nnn, "PROG=%d" % prog, "TJV_LEAF_STUBS"] + (["INPLACE"] if inplace else []),
                "functions": [fn],
                "loops": [top_loop(fn, own_pc, nnn, enc, extra)],
                "tags": spec_tags(props), "props": props, "default_props": props,
                "reach_must": ["TJV_REACH after", "permutation stub reached"],
                "unwind": 33, "timeout": 2400, "cost": 60, "mem_gb": 16, "solver": "kissat-unsat",
                "unbounded": "adlen, mlen <= 2^40 (symbolic; loops closed by loop contracts), all keys, nonces, data; %s" % ("in place (one buffer)" if inplace else "separate buffers"),
                "assumes": ["contract stubs of tinyjambu_{setup,absorb,generate_tag}_%d and tinyjambu_aead_check_tag (stubs/mon.c) stand for the real functions; each stub contract is discharged against the real function by the leaf%d.* and util.check_tag.* jobs" % (nnn, nnn)],
            })
            TOP[nm] = JOBS[-1]

# ---------------------------------------------------------------- bounded stand-ins: flat, concrete lengths
def grid_points(inplace_too=True):
    pts = []
    for ad in (0, 1, 2, 3, 4, 7):
        pts.append({"label": "ad%d_m5" % ad, "defs": ["TJV_AD=%d" % ad, "TJV_ML=5", "TJV_WITNESS"]})
    for ml in (0, 1, 2, 3, 4, 6, 7, 8, 11, 34):
        pts.append({"label": "ad3_m%d" % ml, "defs": ["TJV_AD=3", "TJV_ML=%d" % ml, "TJV_WITNESS"]})
        if inplace_too:
            pts.append({"label": "ad3_m%d_inplace" % ml, "defs": ["TJV_AD=3", "TJV_ML=%d" % ml, "INPLACE", "TJV_WITNESS"]})
    for (ad, ml) in ((17, 5), (33, 9), (3, 65), (40, 100)):      # longer shapes (block counters, fast paths that start beyond 32 / 64 bytes)
        pts.append({"label": "ad%d_m%d" % (ad, ml), "defs": ["TJV_AD=%d" % ad, "TJV_ML=%d" % ml, "TJV_WITNESS"]})
    pts.append({"label": "ad3_m65_inplace", "defs": ["TJV_AD=3", "TJV_ML=65", "INPLACE", "TJV_WITNESS"]})
    for ml in (0, 5, 8):
        pts.append({"label": "ad3_m%d_adjacent" % ml, "defs": ["TJV_AD=3", "TJV_ML=%d" % ml, "TJV_ADJ", "TJV_WITNESS"]})
    pts.append({"label": "ad0_m0_null", "defs": ["TJV_AD=0", "TJV_ML=0", "TJV_NULLS", "TJV_WITNESS"]})
    pts.append({"label": "ad0_m5_null", "defs": ["TJV_AD=0", "TJV_ML=5", "TJV_NULLS", "TJV_WITNESS"]})
    return pts


for nnn in (128, 192, 256):
    common = "repo:src/backend/tinyjambu-aead-common-%d.c" % nnn
    util = "repo:src/backend/tinyjambu-util.c"
    for prog, mode, kind in ((1, "aead", "encrypt"), (2, "aead", "decrypt"), (3, "siv", "encrypt"), (4, "siv", "decrypt")):
        fn = "tinyjambu_%d_%s_%s" % (nnn, mode, kind)
        src = "repo:src/tinyjambu-%d-%s.c" % (nnn, mode)
        props = props_for(mode, kind)
        JOBS.append({
            "name": "%s%d.%s.grid" % (mode, nnn, kind[:3]),
            "files": ["harness/h_aead.c", "stubs/mon.c", src, common, util],
            "defs": ["NNN=%d" % nnn, "PROG=%d" % prog],
            "functions": [fn, "tinyjambu_setup_%d" % nnn, "tinyjambu_absorb_%d" % nnn, "tinyjambu_generate_tag_%d" % nnn,
                          "tinyjambu_aead_check_tag"],
            "grid": grid_points(),
            "tags": spec_tags(props), "props": props, "default_props": props,
            "unwind": 110, "timeout": 300, "cost": 30, "mem_gb": 6, "mem_share": 0.3,
            "bounded": "concrete (adlen, mlen) grid: longer shapes (17,5), (33,9), (3,65), (40,100), (3,65) in place; adlen in {0,1,2,3,4,7} x mlen 5, adlen 3 x mlen in {0,1,2,3,4,6,7,8,11,34}, in place and separate, neighbouring non-overlapping buffers (gap 0..7), NULL with length 0; all keys, nonces and data symbolic; whole real call tree except the permutation (loops fully unwound, unwinding assertions on)",
        })

for nnn in (128, 192, 256):
    for mode, siv in (("aead", 0), ("siv", 1)):
        props = ["C03", "C06"] if mode == "aead" else ["C08", "C06"]
        JOBS.append({
            "name": "%s%d.dec.short" % (mode, nnn),
            "files": ["harness/h_aead_short.c", "stubs/mon.c", "repo:src/tinyjambu-%d-%s.c" % (nnn, mode)],
            "defs": ["NNN=%d" % nnn, "PROG=99", "TJV_LEAF_STUBS", "SIV=%d" % siv],
            "functions": ["tinyjambu_%d_%s_decrypt" % (nnn, mode)],
            "tags": spec_tags(props), "props": props, "default_props": props,
            "unwind": 40, "cost": 3, "mem_gb": 4, "mem_share": 0.25,
            "unbounded": "all clen in 0..7 (symbolic), all other arguments",
        })
