"""CBMC contract pipeline for the TinyJAMBU verification (see DESIGN.md section 2).

goto-cc (real /repo sources + harness + contract stubs)
  -> goto-instrument --add-library
  -> goto-instrument --unwindset (macro do{}while(0) loops : 1, declared fixed-count inner loops : N)
  -> goto-instrument --loop-contracts-file --apply-loop-contracts     (legacy, non-DFCC)
  -> [goto-instrument --enforce-contract f --replace-call-with-contract g]
  -> cbmc (safety checks + contract obligations)

Everything that is not a verdict of the verifier (timeouts, instrumentation errors, loops that
moved, missing obligations) raises ToolError -> exit status 2, never a VIOLATION.
"""
import json
import os
import re
import resource
import subprocess
import time

REPO = os.environ.get("TJV_REPO", "/repo")
VERIF = os.path.dirname(os.path.dirname(os.path.abspath(__file__)))


class ToolError(Exception):
    pass


def _limits(mem_gb):
    def f():
        lim = int(mem_gb * (1 << 30))
        resource.setrlimit(resource.RLIMIT_AS, (lim, lim))
        os.setsid()
    return f


def run(cmd, cwd, timeout, mem_gb=12, env=None, log=None):
    t0 = time.time()
    e = dict(os.environ)
    e["TMPDIR"] = cwd
    if env:
        e.update(env)
    try:
        p = subprocess.Popen(cmd, cwd=cwd, stdout=subprocess.PIPE, stderr=subprocess.STDOUT,
                             preexec_fn=_limits(mem_gb), env=e, text=True, errors="replace")
        try:
            out, _ = p.communicate(timeout=timeout)
        except subprocess.TimeoutExpired:
            try:
                os.killpg(p.pid, 9)
            except Exception:
                p.kill()
            out, _ = p.communicate()
            if log:
                open(log, "w").write(out)
            raise ToolError("timeout after %ss: %s" % (timeout, " ".join(cmd[:6])))
    except OSError as ex:
        raise ToolError("cannot run %s: %s" % (cmd[0], ex))
    if log:
        open(log, "w").write(out)
    return p.returncode, out, time.time() - t0


def resolve(path):
    """'repo:src/x.c' -> /repo/src/x.c ; relative -> /verif/..."""
    if path.startswith("repo:"):
        return os.path.join(REPO, path[5:])
    if os.path.isabs(path):
        return path
    return os.path.join(VERIF, path)


def show_loops(gb, cwd):
    rc, out, _ = run(["goto-instrument", "--show-loops", "--json-ui", gb], cwd, 120)
    try:
        start = out.index("[")
        data = json.loads(out[start:])
    except Exception:
        raise ToolError("cannot parse --show-loops output")
    loops = []
    for item in data:
        if isinstance(item, dict) and "loops" in item:
            for l in item["loops"]:
                sl = l.get("sourceLocation", {})
                loops.append({"name": l["name"], "file": sl.get("file", ""), "line": int(sl.get("line", "0") or 0),
                              "function": sl.get("function", l["name"].rsplit(".", 1)[0])})
    return loops


_src_cache = {}


def src_line(path, line):
    if not path:
        return ""
    if path not in _src_cache:
        try:
            _src_cache[path] = open(path, errors="replace").read().split("\n")
        except OSError:
            _src_cache[path] = []
    ls = _src_cache[path]
    return ls[line - 1] if 0 < line <= len(ls) else ""


LOOP_KW = re.compile(r"\b(while|for)\b")


def is_macro_loop(loop):
    """do { ... } while (0) bodies of the le_store/be_store/lw_xor macros show up as loops located on the
    line of the macro *use*, which contains no loop keyword."""
    text = src_line(loop["file"], loop["line"])
    if LOOP_KW.search(text) and not re.search(r"while\s*\(\s*0\s*\)", text):
        return False
    return True


def build(job, scratch):
    """Compile and instrument; returns path of the final goto binary and a dict of facts."""
    facts = {"loops": [], "macro_loops": 0}
    files = [resolve(f) for f in job["files"]]
    for f in files:
        if not os.path.exists(f):
            raise ToolError("source file missing: %s" % f)
    cmd = ["goto-cc", "-I" + os.path.join(REPO, "src"), "-I" + os.path.join(VERIF, "include"),
           "-I" + os.path.join(VERIF, "spec"), "-I" + os.path.join(VERIF, "stubs"), "-I" + os.path.join(VERIF, "contracts")]
    cmd += ["-I" + resolve(i) for i in job.get("incs", [])]
    cmd += ["-D" + d for d in job.get("defs", [])]
    if job.get("remove_bodies"):
        # callee functions defined in the same /repo file as the function under verification are replaced by contract
        # stubs: compile the /repo files alone, drop the bodies, then link the stubs
        rfiles = [f for f in files if f.startswith(REPO)]
        ofiles = [f for f in files if not f.startswith(REPO)]
        rc, out, _ = run(cmd + rfiles + ["-c", "-o", "r.gb"], scratch, 300, log=os.path.join(scratch, "gotocc0.log"))
        if rc != 0:
            raise ToolError("goto-cc failed (the tree does not compile for verification):\n" + out[-2000:])
        rb = ["goto-instrument"]
        for f in job["remove_bodies"]:
            rb += ["--remove-function-body", f]
        rc, out, _ = run(rb + ["r.gb", "r2.gb"], scratch, 300)
        if rc != 0:
            raise ToolError("goto-instrument --remove-function-body failed:\n" + out[-1500:])
        files = ["r2.gb"] + ofiles
    cmd += files + ["-o", "a.gb", "--function", job.get("entry", "harness")]
    rc, out, _ = run(cmd, scratch, 300, log=os.path.join(scratch, "gotocc.log"))
    if rc != 0:
        raise ToolError("goto-cc failed (the tree does not compile for verification):\n" + out[-2000:])
    rc, out, _ = run(["goto-instrument", "--add-library", "a.gb", "b.gb"], scratch, 300)
    if rc != 0:
        raise ToolError("goto-instrument --add-library failed:\n" + out[-1500:])
    # Library code must not keep state between calls: any object with static storage duration defined in /repo starts
    # with an ARBITRARY value (= arbitrary history of earlier calls).  The pinned tree defines none, so this changes
    # nothing there; a cache introduced later is then exercised with stale contents.
    rc, out, _ = run(["goto-instrument", "--nondet-static-matching", "^" + re.escape(REPO) + "/.*", "b.gb", "b2.gb"], scratch, 300)
    if rc != 0:
        raise ToolError("goto-instrument --nondet-static-matching failed:\n" + out[-1500:])
    os.replace(os.path.join(scratch, "b2.gb"), os.path.join(scratch, "b.gb"))
    loops = show_loops("b.gb", scratch)
    # which loops are under the responsibility of this job: those in functions of /repo and of listed files
    unwindset = []
    real = {}
    for l in loops:
        if l["file"].startswith("<builtin") or "/cprover" in l["file"] or not l["file"]:
            continue
        if l["file"].startswith(REPO) and "lw_xor_block" in src_line(l["file"], l["line"]):
            # lw_xor_block(dest, src, 32): do { while (_len > 0) ... } while (0) on one source line, constant length 32.
            # Loops are numbered by their back edge: the inner while comes first (33 iterations), the do-while(0) last (1).
            same = sorted([x for x in loops if x["file"] == l["file"] and x["line"] == l["line"] and x["function"] == l["function"]],
                          key=lambda x: int(x["name"].rsplit(".", 1)[1]))
            unwindset.append("%s:%d" % (l["name"], 1 if (len(same) > 1 and l is same[-1]) else 33))
            facts["macro_loops"] += 1
        elif l["file"].startswith(REPO) and is_macro_loop(l):
            unwindset.append("%s:1" % l["name"])
            facts["macro_loops"] += 1
        elif l["file"].startswith(os.path.join(VERIF, "stubs")) or l["file"].startswith(os.path.join(VERIF, "spec")):
            # fixed-count loops of the contract stubs (key words, 8 tag bytes, ...): unwound, unwinding assertions on
            if job.get("loops"):
                unwindset.append("%s:%d" % (l["name"], job.get("stub_unwind", 9)))
        else:
            real.setdefault(l["function"], []).append(l)
    # declared pre-unwinds: fixed-count loops (by function + ordinal among real loops)
    pre = job.get("pre_unwind", [])
    pre_names = set()
    for (fn, idx, pat, count) in pre:
        ls = real.get(fn, [])
        if idx >= len(ls):
            raise ToolError("loop %s#%d not found (expected line matching /%s/)" % (fn, idx, pat))
        l = ls[idx]
        if not re.search(pat, src_line(l["file"], l["line"])):
            raise ToolError("loop %s#%d is at '%s', expected /%s/" % (fn, idx, src_line(l["file"], l["line"]).strip(), pat))
        unwindset.append("%s:%d" % (l["name"], count))
        pre_names.add(l["name"])
    cur = "b.gb"
    if unwindset:
        rc, out, _ = run(["goto-instrument", "--unwindset", ",".join(unwindset), "--unwinding-assertions", cur, "c.gb"], scratch, 300)
        if rc != 0:
            raise ToolError("goto-instrument --unwindset failed:\n" + out[-1500:])
        cur = "c.gb"
    lcs = job.get("loops", [])
    if lcs:
        loops2 = show_loops(cur, scratch)
        real2 = {}
        for l in loops2:
            real2.setdefault(l["function"], []).append(l)
        funcs = {}
        sources = set()
        for lc in lcs:
            fn = lc["fn"]
            ls = real2.get(fn, [])
            if lc["idx"] >= len(ls):
                raise ToolError("loop %s#%d not found for loop contract" % (fn, lc["idx"]))
            l = ls[lc["idx"]]
            text = src_line(l["file"], l["line"])
            if not re.search(lc["line"], text):
                raise ToolError("loop %s#%d is at '%s', expected /%s/ (loop moved or changed: proof scaffolding no longer matches)"
                                % (fn, lc["idx"], text.strip(), lc["line"]))
            sources.add(l["file"])
            smap = ";".join("%s,%s" % (k, v) for k, v in lc["map"].items())
            ent = {"loop_id": l["name"].rsplit(".", 1)[1], "assigns": lc["assigns"], "invariants": lc["inv"],
                   "symbol_map": smap}
            if lc.get("dec"):
                ent["decreases"] = lc["dec"]
            funcs.setdefault(fn, []).append(ent)
            facts["loops"].append("%s.%s @%s:%d" % (fn, ent["loop_id"], os.path.basename(l["file"]), l["line"]))
        spec = {"sources": sorted(sources), "functions": [{fn: ents} for fn, ents in funcs.items()], "output": "OUTPUT"}
        json.dump(spec, open(os.path.join(scratch, "lc.json"), "w"), indent=1)
        rc, out, _ = run(["goto-instrument", "--loop-contracts-file", "lc.json", "--apply-loop-contracts", cur, "d.gb"],
                         scratch, 600, log=os.path.join(scratch, "lc.log"))
        if rc != 0:
            raise ToolError("goto-instrument --apply-loop-contracts failed:\n" + out[-2500:])
        cur = "d.gb"
    if job.get("apply_inline_loop_contracts"):
        rc, out, _ = run(["goto-instrument", "--apply-loop-contracts", cur, "d.gb"], scratch, 600, log=os.path.join(scratch, "lc.log"))
        if rc != 0:
            raise ToolError("goto-instrument --apply-loop-contracts failed:\n" + out[-2500:])
        cur = "d.gb"
    if job.get("enforce") or job.get("replace"):
        cmd = ["goto-instrument"]
        for f in job.get("enforce", []):
            cmd += ["--enforce-contract", f]
        for f in job.get("replace", []):
            cmd += ["--replace-call-with-contract", f]
        cmd += [cur, "e.gb"]
        rc, out, _ = run(cmd, scratch, 600, log=os.path.join(scratch, "fc.log"))
        if rc != 0:
            raise ToolError("goto-instrument function contracts failed:\n" + out[-2500:])
        cur = "e.gb"
    if job.get("branch_hook"):
        rc, out, _ = run(["goto-instrument", "--branch", job["branch_hook"], cur, "f.gb"], scratch, 300)
        if rc != 0:
            raise ToolError("goto-instrument --branch failed:\n" + out[-1500:])
        cur = "f.gb"
    # remaining uncontracted loops (reported so that evidence can state the unwinding bound used)
    facts["remaining_loops"] = [l["name"] for l in show_loops(cur, scratch)
                                if not (l["file"].startswith("<builtin"))]
    return cur, facts


RES = re.compile(r"^\[(?P<name>[^\]]+)\] (?:(?:file (?P<file>\S+) )?line (?P<line>\d+) )?(?P<desc>.*): (?P<st>SUCCESS|FAILURE|ERROR|UNKNOWN)$")


def cbmc_flags(job):
    fl = ["--bounds-check", "--pointer-check", "--signed-overflow-check", "--undefined-shift-check",
          "--div-by-zero-check", "--no-pointer-primitive-check",
          "--unwind", str(job.get("unwind", 1)), "--unwinding-assertions", "--verbosity", "8"]
    for u in job.get("unwindset", []):
        fl += ["--unwindset", u]
    if job.get("solver", "minisat") == "kissat":
        fl += ["--external-sat-solver", "kissat"]
    elif job.get("solver") == "kissat-unsat":       # kissat's preset for instances expected to be UNSAT (measured 35% faster)
        fl += ["--external-sat-solver", os.path.join(VERIF, "tools", "kissat_unsat.sh")]
    fl += job.get("cbmc_extra", [])
    return fl


def parse_results(out):
    res = []
    curfile = ""
    for line in out.split("\n"):
        h = re.match(r"^(\S+) function (\S+)$", line.strip())
        if h:
            curfile = h.group(1)
            continue
        m = RES.match(line.strip())
        if m:
            res.append({"name": m.group("name"), "line": int(m.group("line") or 0), "file": m.group("file") or curfile,
                        "desc": m.group("desc"), "status": m.group("st")})
    return res


def verify(job, gb, scratch, extra=None, tag="cbmc"):
    cmd = ["cbmc", gb] + cbmc_flags(job) + (extra or [])
    log = os.path.join(scratch, tag + ".log")
    rc, out, secs = run(cmd, scratch, job.get("timeout", 600), mem_gb=job.get("mem_gb", 12), log=log)
    res = parse_results(out)
    bad_warn = [l for l in out.split("\n") if re.search(r"ignoring (forall|exists)|no body for function|unwinding assertion.*SKIPPED", l)]
    # stubs whose body is intentionally missing are declared by the job
    allowed = job.get("allow_no_body", [])
    bad_warn = [l for l in bad_warn if not any(a in l for a in allowed)]
    if rc not in (0, 10):
        if "out of memory" in out.lower() or "bad_alloc" in out or rc in (-9, 137, -6, 134):
            raise ToolError("cbmc ran out of memory / was killed (rc %s) in %s" % (rc, job["name"]))
        raise ToolError("cbmc failed with rc %s in %s:\n%s" % (rc, job["name"], out[-1500:]))
    if not res:
        raise ToolError("cbmc produced no obligations in %s (vacuous run)" % job["name"])
    if bad_warn:
        raise ToolError("cbmc warning that invalidates the run in %s: %s" % (job["name"], bad_warn[0].strip()))
    m = re.search(r"(\d+) variables, (\d+) clauses", out)
    size = (int(m.group(1)), int(m.group(2))) if m else (0, 0)
    sm = re.findall(r"Runtime Solver: ([0-9.]+)s", out)
    solver_s = sum(float(x) for x in sm)
    return {"results": res, "rc": rc, "secs": secs, "solver_s": solver_s, "vars": size[0], "clauses": size[1], "log": log,
            "cmd": " ".join(cmd)}


def trace(job, gb, scratch, prop_name):
    """Re-run one failed obligation with a trace; returns (text, assignments dict of harness-level symbols)."""
    cmd = ["cbmc", gb] + cbmc_flags(job) + ["--property", prop_name, "--trace", "--trace-show-code"]
    try:
        rc, out, _ = run(cmd, scratch, job.get("timeout", 600), mem_gb=job.get("mem_gb", 12),
                         log=os.path.join(scratch, "trace.log"))
    except ToolError as ex:
        return "trace not available: %s" % ex, {}
    vals = {}
    # "  name=value (bits)" lines of the plain trace; keep last assignment of every tjw_* witness variable
    for m in re.finditer(r"^\s+(tjw_[A-Za-z0-9_]*(?:\[\d+l?\])?)=(-?\d+|\{[^\n]*\})", out, re.M):
        vals[m.group(1)] = m.group(2)
    i = out.find("Trace for")
    return out[i:] if i >= 0 else out[-6000:], vals
