"""Jobs for src/backend/tinyjambu-util.c (check_tag) and tinyjambu-clean.c."""
LE = "__CPROVER_loop_entry"
CT = "tinyjambu_aead_check_tag"

LOOP_TAG = {
    "fn": CT, "idx": 0, "line": r"size > 0",
    "assigns": "accum, tag1, tag2, size",
    "inv": ("0 <= accum && accum <= 255 && size <= LE(size) && tag1 == LE(tag1) + (LE(size) - size) && "
            "tag2 == LE(tag2) + (LE(size) - size) && "
            "((tjv_j < LE(size) - size) ==> (((LE(tag1)[tjv_j] ^ LE(tag2)[tjv_j]) & ~accum) == 0))").replace("LE(", LE + "("),
    "dec": "size",
    "map": {"accum": CT + "::1::accum", "tag1": CT + "::tag1", "tag2": CT + "::tag2", "size": CT + "::size", "tjv_j": "tjv_j"},
}


def loop_clear(idx):
    return {
        "fn": CT, "idx": idx, "line": r"plaintext_len > 0",
        "assigns": "plaintext, plaintext_len, __CPROVER_object_upto(plaintext, plaintext_len)",
        "inv": ("plaintext_len <= LE(plaintext_len) && plaintext == LE(plaintext) + (LE(plaintext_len) - plaintext_len) && "
                "(accum == 0 || accum == -1) && "
                "((tjv_k < LE(plaintext_len) - plaintext_len) ==> (LE(plaintext)[tjv_k] == (LE(LE(plaintext)[tjv_k]) & accum))) && "
                "((tjv_k >= LE(plaintext_len) - plaintext_len && tjv_k < LE(plaintext_len)) ==> "
                "(LE(plaintext)[tjv_k] == LE(LE(plaintext)[tjv_k])))").replace("LE(", LE + "("),
        "dec": "plaintext_len",
        "map": {"accum": CT + "::1::accum", "plaintext": CT + "::plaintext", "plaintext_len": CT + "::plaintext_len", "tjv_k": "tjv_k"},
    }


JOBS = [
    {
        "name": "util.check_tag.contract",
        "files": ["harness/h_check_tag.c", "repo:src/backend/tinyjambu-util.c"],
        "allow_no_body": ["tinyjambu_clean"],
        "functions": ["tinyjambu_aead_check_tag"],
        "enforce": [CT],
        "loops": [LOOP_TAG, loop_clear(1)],
        "tags": [(r"Check ensures clause|postcondition", ["C03", "C04"]), (r"Check that .* is assignable", ["C06"])],
        "props": ["C03", "C04", "C06"],
        "unbounded": "plaintext_len <= 2^28-1, size <= 64, all contents",
        "cost": 5,
        "assumes": ["(accum - 1) >> 8 on a negative int is an arithmetic shift (implementation-defined in ISO C; CBMC's model = gcc/clang)"],
    },
    {
        "name": "util.check_tag.size8",
        "files": ["harness/h_check_tag8.c", "repo:src/backend/tinyjambu-util.c"],
        "functions": ["tinyjambu_aead_check_tag"],
        "pre_unwind": [(CT, 0, r"size > 0", 9)],
        "unwind": 9,
        "loops": [loop_clear(0)],
        "props": ["C03", "C04", "C06"],
        "unbounded": "plaintext_len <= 2^28-1; tag size fixed at 8 (what every call site passes), all 2^128 tag pairs",
        "cost": 5,
    },
    {
        "name": "util.check_tag.grid",
        "files": ["harness/h_check_tag_grid.c", "repo:src/backend/tinyjambu-util.c", "repo:src/backend/tinyjambu-clean.c"],
        "functions": ["tinyjambu_aead_check_tag"],
        "grid": [{"label": "pl%d" % n, "defs": ["TJV_PL=%d" % n]} for n in (0, 1, 3, 4, 5, 8, 13, 21)],
        "props": ["C03", "C04", "C06"],
        "unwind": 40, "cost": 8, "mem_gb": 4, "mem_share": 0.25,
        "bounded": "plaintext lengths {0,1,3,4,5,8,13,21}, every alignment 0..7, all tag pairs and contents (loops unwound; no loop contract, so refactored loops are still decided)",
    },
]
