"""PRNG (C15, C16, C17) and TRNG (C18)."""
from .jobs_clean import CLEAN_LOOP, CLEAN_SRC
LE = "__CPROVER_loop_entry"
PRNG = "repo:src/tinyjambu-prng.c"
GEN = "tinyjambu_prng_generate"
GEN_LOOP = {
    "fn": GEN, "idx": 0, "line": r"size > 0",
    "assigns": "data, size, len, carry, index, H, tjv_B, tjv_cb_calls, __CPROVER_object_whole(state), __CPROVER_object_whole(data)",
    "inv": ("size <= LE(size) && data == LE(data) + (LE(size) - size) && pstate->reseed_limit == LE(pstate->reseed_limit) && "
            "pstate->reseed_limit >= 1 && pstate->reseed_limit <= 32768 && pstate->reseed_counter >= 1 && tjv_B <= pstate->reseed_counter - 1 && "
            "pstate->callback == tjv_callback").replace("LE(", LE + "("),
    "dec": "size",
    "map": {"data": GEN + "::data", "size": GEN + "::size", "state": GEN + "::state", "pstate": GEN + "::1::pstate", "len": GEN + "::1::len",
            "carry": GEN + "::1::carry", "index": GEN + "::1::index", "H": GEN + "::1::H", "tjv_B": "tjv_B", "tjv_cb_calls": "tjv_cb_calls",
            "tjv_callback": "tjv_callback"},
}
BFILES = ["harness/h_prng_budget.c", "stubs/prng_frame.c", "stubs/clean_stub.c", PRNG]
COMMON = {"props": ["C16", "C06"], "default_props": ["C16"], "mem_gb": 8, "mem_share": 0.3,
          "assumes": ["hash API replaced by frame-only contract stubs (values arbitrary); the entropy callback is a contract stub delivering an arbitrary number of arbitrary bytes"]}
JOBS = [
    dict(COMMON, name="prng.generate.budget", files=BFILES, defs=["WHICH=0"], functions=[GEN], loops=[GEN_LOOP],
         pre_unwind=[(GEN, 0, r"for \(index = ", 33)], unwind=34, stub_unwind=34, cost=40, timeout=900,
         unbounded="size <= 2^40 (loop contract), arbitrary valid state, every limit 1..32768, arbitrary entropy deliveries"),
    dict(COMMON, name="prng.set_limit", files=BFILES, defs=["WHICH=1"], functions=["tinyjambu_prng_set_reseed_limit"], unwind=34, cost=2,
         unbounded="every limit (all of size_t), arbitrary valid state"),
    dict(COMMON, name="prng.feed.budget", files=BFILES, defs=["WHICH=2"], functions=["tinyjambu_prng_feed"], unwind=34, cost=3,
         unbounded="every feed size, arbitrary valid state (every counter value incl. 2^32-1)"),
    dict(COMMON, name="prng.reseed.budget", files=BFILES, defs=["WHICH=3"], functions=["tinyjambu_prng_reseed"], unwind=34, cost=3,
         unbounded="arbitrary valid state, arbitrary delivery"),
    dict(COMMON, name="prng.init.budget", files=BFILES, defs=["WHICH=4"], functions=["tinyjambu_prng_init_user"], unwind=100, cost=3,
         unbounded="arbitrary prior contents, arbitrary delivery, every custom_len"),
]

from .jobs_l2 import split_grid
FFILES = ["harness/h_prng_fn.c", "stubs/hash_abs.c", "stubs/mem.c", "stubs/clean_stub.c", PRNG]
FCOMMON = {"files": FFILES, "props": ["C15", "C16", "C17"], "default_props": ["C15"], "unwind": 200, "timeout": 300, "mem_gb": 8, "mem_share": 0.3,
           "tags": [(r"^C15:", ["C15"]), (r"^C17:", ["C17"]), (r"^C15/C17:", ["C15", "C17"]), (r"^C15/C16:", ["C15", "C16"])],
           "assumes": ["hash API replaced by its contract (stubs/hash_abs.c), discharged by C10/C11",
                       "entropy callback / tinyjambu_trng_generate are contract stubs delivering DEL of 32 symbolic bytes"]}
JOBS += split_grid(dict(FCOMMON, name="prng.generate.fn", defs=["WHICH=0", "TJV_CAP=128", "NMEMO=40"], functions=[GEN],
    grid=[{"label": "sz%d_c%d_l%d_d%d" % (sz, c, l, d), "defs": ["SZ=%d" % sz, "CNT=%d" % c, "LIM=%d" % l, "DEL=%d" % d]}
          for (sz, c, l, d) in [(0, 5, 32, 32), (1, 5, 32, 32), (32, 1, 1, 32), (33, 33, 32, 32), (70, 2, 2, 7), (64, 32, 32, 0), (40, 9, 3, 40)]],
    cost=80,
    bounded="generate sizes {0,1,32,33,40,64,70} with (counter, limit, delivery) in {(5,32,32),(1,1,32),(33,32,32),(2,2,7),(32,32,0),(9,3,40)}; V, C, entropy bytes symbolic"), 7)
JOBS += split_grid(dict(FCOMMON, name="prng.ops.fn", defs=["TJV_CAP=128", "NMEMO=16"], functions=["tinyjambu_prng_feed", "tinyjambu_prng_reseed", "tinyjambu_prng_init_user", "tinyjambu_prng_init"],
    grid=[{"label": "feed%d" % d, "defs": ["WHICH=1", "DL=%d" % d]} for d in (0, 5, 40)]
       + [{"label": "reseed_del%d" % d, "defs": ["WHICH=2", "DEL=%d" % d]} for d in (32, 0, 7, 31, 40)]
       + [{"label": "init_del%d_cl%d" % (d, c), "defs": ["WHICH=3", "DEL=%d" % d, "CL=%d" % c]} for (d, c) in ((32, 0), (32, 9), (0, 9), (13, 3), (33, 0))]
       + [{"label": "init_null_cl%d" % c, "defs": ["WHICH=4", "CL=%d" % c]} for c in (0, 9)],
    cost=60,
    bounded="feed sizes {0,5,40}; deliveries {0,7,13,31,32,33,40} bytes; custom lengths {0,3,9}; V, C, entropy, data bytes symbolic"), 5)

# ---------------------------------------------------------------- TRNG (C18)
TR = "tinyjambu_dev_random_read"
TRNG_LOOP = {
    "fn": TR, "idx": 0, "line": r"for \(;;\)",
    "assigns": "tjv_fuel, tjv_calls, tjv_permanent, __CPROVER_errno, __CPROVER_object_whole(out)",
    "inv": "tjv_permanent == 0 && outlen == 32 && tjv_fuel <= __CPROVER_loop_entry(tjv_fuel) && tjv_calls == __CPROVER_loop_entry(tjv_calls) + (__CPROVER_loop_entry(tjv_fuel) - tjv_fuel)",
    "dec": "tjv_fuel",
    "map": {"tjv_fuel": "tjv_fuel", "tjv_calls": "tjv_calls", "tjv_permanent": "tjv_permanent", "__CPROVER_errno": "__CPROVER_errno",
            "out": TR + "::out", "outlen": TR + "::outlen"},
}
for nm, defs in (("getrandom", ["HAVE_GETRANDOM", "HAVE_SYS_RANDOM_H"]), ("getentropy", ["HAVE_GETENTROPY", "HAVE_SYS_RANDOM_H"]), ("syscall", ["HAVE_SYS_SYSCALL_H"])):
    JOBS.append({
        "name": "trng." + nm, "files": ["harness/h_trng.c", "stubs/os_entropy.c", "repo:src/random/tinyjambu-trng-dev-random.c"],
        "defs": defs, "functions": ["tinyjambu_trng_generate", TR + " (static)"], "loops": [TRNG_LOOP],
        "props": ["C18", "C06"], "default_props": ["C18"], "unwind": 34, "stub_unwind": 34, "cost": 3, "mem_gb": 4, "mem_share": 0.2,
        "unbounded": "every finite sequence over {EINTR, EAGAIN, permanent error, success} (ghost fuel up to 2^32-1 transient failures), %s build variant" % nm,
        "assumes": ["libc/OS contract of %s as modelled in stubs/os_entropy.c (32-byte requests are all-or-error)" % nm,
                    "the /dev/urandom read() fallback variant is not selectable on this platform's headers and is out of scope"],
    })

# ---------------------------------------------------------------- derivation protocol, unbounded in the caller data length
for w, nm, fn in ((1, "feed", "tinyjambu_prng_feed"), (2, "reseed", "tinyjambu_prng_reseed"), (3, "init", "tinyjambu_prng_init_user")):
    JOBS.append({
        "name": "prng.%s.proto" % nm, "files": ["harness/h_prng_proto.c", "stubs/mem.c", "stubs/clean_stub.c", PRNG], "defs": ["WHICH=%d" % w],
        "functions": [fn, "tinyjambu_hash_df (static, inlined)"],
        "props": ["C15", "C17", "C06"], "default_props": ["C15"],
        "tags": [(r"^prng df:", ["C15"]), (r"^C15:", ["C15"]), (r"^C17:", ["C17"]), (r"^C15/C17:", ["C15", "C17"])],
        "unwind": 100, "cost": 10, "mem_gb": 8, "mem_share": 0.3,
        "unbounded": "every length of the caller data (feed size / personalisation length <= 2^40), every delivery count of the entropy source (all of size_t), arbitrary prior state",
        "assumes": ["hash API replaced by a protocol-recording contract stub (arbitrary digests); its functional contract: C10/C11"],
    })

_gf = [j for j in JOBS if j["name"] == "prng.generate.fn.0"][0]
JOBS += split_grid(dict(_gf, name="prng.generate.fnt",
    grid=[{"label": "sz%d_c%d_l%d_d%d" % (sz, c, l, d), "defs": ["SZ=%d" % sz, "CNT=%d" % c, "LIM=%d" % l, "DEL=%d" % d]}
          for (sz, c, l, d) in [(31, 1, 32, 32), (96, 1, 32, 32), (65, 31, 32, 13), (33, 1000, 32768, 32), (64, 32768, 32768, 32), (2, 4, 3, 31), (48, 2, 1, 33)]],
    cost=160,
    bounded="7 more (size, counter, limit, delivery) shapes incl. three blocks, the maximum limit and deliveries of 13, 31 and 33 bytes"), 7)
