"""Generates /verif/MANIFEST.json from the property table (python3 -m tjv.manifest)."""
import json, os
from .registry import PROPS, JOBS, NOT_APPLICABLE
VERIF = os.path.dirname(os.path.dirname(os.path.abspath(__file__)))

def main():
    checks = []
    for pid in sorted(PROPS):
        p = PROPS[pid]
        c = {"property_id": pid, "quick_cmd": "./check %s quick" % pid, "thorough_cmd": "./check %s thorough" % pid,
             "evidence_file": "/verif/evidence/%s.json" % pid, "replay_cmd_template": "./check %s --replay {path}" % pid,
             "engine": "cbmc-contracts",
             "level_claimed": {"category": p["level"], "text": p["text"], "design_ref": p.get("design_ref", "DESIGN.md section 4 " + pid)},
             "level_note": p["note"], "technique": p["technique"]}
        checks.append(c)
    man = {
        "version": 1,
        "setup_cmd": "./setup.sh",
        "hooks": {"guard": "TINYJAMBU_VERIF",
                  "enable": "not needed: contracts are attached from /verif (re-declaration headers, loop-contract files keyed by function and loop ordinal, contract stubs); /repo sources are compiled unmodified by goto-cc",
                  "baseline_off_cmd": "cmake -G Ninja -B /repo/_build -S /repo && cmake --build /repo/_build && ctest --test-dir /repo/_build -j8 --timeout 900",
                  "source_commits": [], "add_only": True},
        "engines": [{"name": "cbmc-contracts", "path": "/verif/check",
                     "serves_properties": sorted(PROPS),
                     "kind_free_text": "contract-based deductive verification of the real C sources with CBMC 6.11: function contracts (re-declaration headers, --enforce-contract / contract stubs), loop contracts (goto-instrument --apply-loop-contracts, legacy mode), spec monitors inside the permutation's contract stub, SAT back ends minisat and kissat"}],
        "checks": checks,
        "not_applicable": [{"property_id": k, "reason": v} for k, v in sorted(NOT_APPLICABLE.items())],
        "notes": "See DESIGN.md. Exit 2 of a check = tool error / proof scaffolding broken (undecided), never a violation. Known findings: /verif/known_findings.txt.",
    }
    json.dump(man, open(os.path.join(VERIF, "MANIFEST.json"), "w"), indent=1)
    print("MANIFEST.json written: %d checks, %d not_applicable" % (len(checks), len(man["not_applicable"])))

if __name__ == "__main__":
    main()
