"""C07: branch-trace self-composition (bounded public shapes, control flow only)."""
from .jobs_l2 import split_grid
UTIL = "repo:src/backend/tinyjambu-util.c"
JOBS = []
COMMON = {"entry": "main", "branch_hook": "tjv_branch", "props": ["C07"], "default_props": ["C07"], "unwind": 600, "unwindset": ["main.0:1030"], "timeout": 200,
          "mem_gb": 8, "mem_share": 0.3, "reach": True}
JOBS.append(dict(COMMON, name="ct.check_tag", files=["harness/h_ct.c", "stubs/ct_hook.c", UTIL], functions=["tinyjambu_aead_check_tag"],
                 grid=[{"label": "pl%d" % n, "defs": ["WHAT=0", "ML=%d" % n]} for n in (0, 1, 5, 17)], cost=5,
                 bounded="plaintext lengths {0,1,5,17}; tags and plaintext secret (symbolic, independent in the two runs)"))
for nnn in (128, 192, 256):
    for mode, enc, dec in (("aead", "_aead_encrypt", "_aead_decrypt"), ("siv", "_siv_encrypt", "_siv_decrypt")):
        files = ["harness/h_ct.c", "stubs/ct_hook.c", "stubs/perm_free.c", UTIL, "repo:src/tinyjambu-%d-%s.c" % (nnn, mode),
                 "repo:src/backend/tinyjambu-aead-common-%d.c" % nnn]
        shapes = [(0, 0), (3, 5), (4, 8), (1, 2), (2, 3), (5, 7)]
        JOBS.append(dict(COMMON, name="ct.%s%d" % (mode, nnn), files=files,
                         functions=["tinyjambu_%d%s" % (nnn, enc), "tinyjambu_%d%s" % (nnn, dec), "setup/absorb/generate_tag_%d" % nnn, "tinyjambu_aead_check_tag"],
                         grid=[{"label": "w%d_ad%d_m%d" % (w, a, m), "defs": ["WHAT=%d" % w, "AD=%d" % a, "ML=%d" % m, "NNN=%d" % nnn, "MODE_ENC=" + enc, "MODE_DEC=" + dec]}
                               for w in (1, 2) for (a, m) in shapes], cost=30,
                         bounded="(adlen, mlen) in {(0,0),(3,5),(4,8),(1,2),(2,3),(5,7)}; key, nonce, AD, message/ciphertext, tag secret; permutation = branch-free contract stub"))
    JOBS.append(dict(COMMON, name="ct.perm%d" % nnn, files=["harness/h_ct.c", "stubs/ct_hook.c", "repo:src/backend/tinyjambu-%d-c32.c" % nnn],
                     functions=["tinyjambu_permutation_%d" % nnn],
                     grid=[{"label": "r%d" % r, "defs": ["WHAT=5", "ML=%d" % r, "NNN=%d" % nnn]} for r in (0, 1, 2, 5, 8, 9, 10, 20)], cost=10,
                     bounded="round counts {0,1,2,5,8,9,10,20}; state and key secret"))
JOBS.append(dict(COMMON, name="ct.hash", files=["harness/h_ct.c", "stubs/ct_hook.c", "stubs/perm_free.c", "stubs/mem.c", "repo:src/tinyjambu-hash.c", "stubs/clean_stub.c"],
                 functions=["tinyjambu_hash_init", "tinyjambu_hash_update", "tinyjambu_hash_finalize"],
                 grid=[{"label": "split%d_len%d" % (a, m), "defs": ["WHAT=3", "AD=%d" % a, "ML=%d" % m]} for (a, m) in ((0, 0), (5, 16), (5, 27), (16, 33), (1, 15))], cost=40,
                 bounded="message lengths {0,15,16,27,33} split into two updates at {0,1,5,16}; message bytes secret; permutation = branch-free contract stub"))
JOBS.append(dict(COMMON, name="ct.hmac", files=["harness/h_ct.c", "stubs/ct_hook.c", "stubs/hash_free.c", "stubs/mem.c", "stubs/clean_stub.c", "repo:src/tinyjambu-hmac.c"],
                 functions=["tinyjambu_hmac", "tinyjambu_hmac_set_key"],
                 grid=[{"label": "k%d_m%d" % (k, m), "defs": ["WHAT=4", "KL=%d" % k, "ML=%d" % m]} for (k, m) in ((0, 3), (20, 17), (64, 5), (65, 5), (80, 0))], cost=30,
                 bounded="key lengths {0,20,64,65,80} (key-length class is public), message lengths {0,3,5,17}; key and message bytes secret; hash API = contract stubs"))
JOBS.append(dict(COMMON, name="ct.prng", files=["harness/h_ct.c", "stubs/ct_hook.c", "stubs/hash_free.c", "stubs/mem.c", "stubs/clean_stub.c", "repo:src/tinyjambu-prng.c"],
                 functions=["tinyjambu_prng_generate", "tinyjambu_prng_reseed"], allow_no_body=["tinyjambu_trng_generate"], mem_gb=24, mem_share=0.5,
                 grid=[{"label": "sz%d_c%d_l%d" % (sz, c, l), "defs": ["WHAT=6", "ML=%d" % sz, "AD=%d" % c, "KL=%d" % l]} for (sz, c, l) in ((32, 1, 32), (70, 200, 1000), (33, 33, 32), (64, 255, 300))], cost=30,
                 bounded="generate sizes {32,33,64,70} with (counter, limit) in {(1,32),(200,1000),(33,32),(255,300)}; V, C and entropy bytes secret; hash API = branch-free contract stubs"))
L2CT = ["harness/h_ct.c", "stubs/ct_hook.c", "stubs/hash_free.c", "stubs/clean_noop.c", "repo:src/tinyjambu-hmac.c"]
JOBS.append(dict(COMMON, name="ct.hkdf", files=L2CT + ["repo:src/tinyjambu-hkdf.c"], functions=["tinyjambu_hkdf_extract", "tinyjambu_hkdf_expand"],
                 grid=[{"label": "k%d_s%d_o%d" % (k, a, m), "defs": ["WHAT=7", "KL=%d" % k, "AD=%d" % a, "ML=%d" % m]} for (k, a, m) in ((13, 0, 42), (22, 13, 33))], cost=30,
                 bounded="(keylen, saltlen, outlen) in {(13,0,42),(22,13,33)}; key material, salt and info bytes secret; hash API = branch-free contract stubs"))
JOBS.append(dict(COMMON, name="ct.pbkdf2", files=L2CT + ["repo:src/tinyjambu-pbkdf2.c"], functions=["tinyjambu_pbkdf2"],
                 grid=[{"label": "p%d_s%d_o%d" % (k, a, m), "defs": ["WHAT=8", "KL=%d" % k, "AD=%d" % a, "ML=%d" % m]} for (k, a, m) in ((8, 4, 32), (20, 8, 40))], cost=30,
                 bounded="(passwordlen, saltlen, outlen) in {(8,4,32),(20,8,40)}, count 2; password and salt bytes secret; hash API = branch-free contract stubs"))
