"""L0: C backend permutations vs the bit-serial NLFSR (C05, feeds C02/C10)."""
JOBS = []
QUICK_R = {128: [0, 1, 2, 5, 8], 192: [0, 1, 2, 3, 4, 5, 9], 256: [0, 1, 2, 5, 10, 20]}
for nnn in (128, 192, 256):
    for r in range(0, 25):
        JOBS.append({
            "name": "perm%d.R%02d" % (nnn, r),
            "entry": "main",
            "files": ["harness/h_perm.c", "repo:src/backend/tinyjambu-%d-c32.c" % nnn],
            "defs": ["NNN=%d" % nnn, "R=%d" % r],
            "functions": ["tinyjambu_permutation_%d" % nnn],
            "unwind": 128 * max(r, 1) + 2,
            "solver": "kissat",
            "props": ["C05"],
            "timeout": 900,
            "cost": 1 + r,
            "mem_gb": 8, "mem_share": 0.25,
            "unbounded": "all 2^128 states x all 2^%d keys, rounds = %d (loop-free after complete unwinding; unwinding assertions on)" % (nnn, r),
            "quick": r in QUICK_R[nnn],
        })
