"""Supporting static facts read from the goto binary of the WHOLE library built from /repo's working tree (C19):
no writable object with static storage duration is defined by library code, and no heap function is called."""
import os
import re

from . import pipeline as P
from .pipeline import ToolError, VERIF, REPO
from .native import real_sources

HEAP = {"malloc", "calloc", "realloc", "free", "alloca", "aligned_alloc", "posix_memalign", "strdup"}
SHARED = {"rand", "srand", "strtok", "localtime", "gmtime", "asctime", "ctime", "setlocale", "getenv"}


def library_facts(tier, seed, root):
    d = os.path.join(root, "facts")
    os.makedirs(d, exist_ok=True)
    open(os.path.join(d, "e.c"), "w").write("void tjv_entry(void) {}\n")
    cmd = ["goto-cc", "-I" + os.path.join(REPO, "src"), "-DHAVE_GETRANDOM", "-DHAVE_SYS_RANDOM_H", "-DHAVE_EXPLICIT_BZERO", "-DHAVE_STRINGS_H",
           "e.c"] + real_sources() + ["-o", "lib.gb", "--function", "tjv_entry"]
    rc, out, _ = P.run(cmd, d, 300)
    if rc != 0:
        raise ToolError("goto-cc of the whole library failed: " + out[-800:])
    rc, st, _ = P.run(["goto-instrument", "--show-symbol-table", "lib.gb"], d, 300)
    if rc != 0 or "Symbol......:" not in st:
        raise ToolError("cannot read the symbol table of the library goto binary")
    nsym = 0
    statics = []
    for blk in st.split("\n\n"):
        m = re.search(r"^Symbol\.+: (.*)$", blk, re.M)
        if not m:
            continue
        nsym += 1
        flags = re.search(r"^Flags\.+: (.*)$", blk, re.M)
        loc = re.search(r"^Location\.+: file (\S+) line (\d+)", blk, re.M)
        typ = re.search(r"^Type\.+: (.*)$", blk, re.M)
        if not (flags and loc and typ):
            continue
        if "static_lifetime" not in flags.group(1).split():
            continue
        if not loc.group(1).startswith(REPO + "/"):
            continue
        t = typ.group(1).strip()
        name = m.group(1).strip()
        if t.startswith("const ") or name.endswith("$object") and "const" in t or "(" in t and ")" in t and "[" not in t and "*" not in t.split("(")[0] and t.endswith(")"):
            continue
        if re.search(r"\)\s*$", t) and "(*" not in t and "[" not in t:      # function symbols
            continue
        if name.startswith("__CPROVER") or "string_literal" in name or name.endswith("$link1"):
            continue
        statics.append("%s : %s  (%s:%s)" % (name, t, loc.group(1), loc.group(2)))
    rc, cg, _ = P.run(["goto-instrument", "--call-graph", "lib.gb"], d, 300)
    heap_calls = []
    for l in cg.split("\n"):
        m = re.match(r"^(\S+) -> (\S+)$", l.strip())
        if m and (m.group(2) in HEAP or m.group(2) in SHARED) and m.group(1).startswith("tinyjambu"):
            heap_calls.append("%s calls %s" % (m.group(1), m.group(2)))
    text = ("static facts from the goto binary of the whole library (%d symbols): %d writable static-lifetime objects defined by library code, "
            "%d calls to heap / non-reentrant libc functions" % (nsym, len(statics), len(heap_calls)))
    if statics or heap_calls:
        return {"violation": True, "name": "facts.library", "obligation": "no writable static state, no heap use in library code",
                "text": text + ": " + "; ".join(statics + heap_calls), "cmd": "goto-instrument --show-symbol-table / --call-graph lib.gb"}
    return {"text": text, "count": nsym}
