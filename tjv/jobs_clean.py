"""C20: tinyjambu_clean and the *_free functions."""
LE = "__CPROVER_loop_entry"
FN = "tinyjambu_clean"
CLEAN_LOOP = {
    "fn": FN, "idx": 0, "line": r"size > 0",
    "assigns": "d, size, __CPROVER_object_upto((unsigned char *)buf, size)",
    "inv": ("size <= LE(size) && d == (volatile unsigned char *)buf + (LE(size) - size) && "
            "((tjv_c < LE(size) - size) ==> ((unsigned char *)buf)[tjv_c] == 0) && "
            "((tjv_c >= LE(size) - size && tjv_c < LE(size)) ==> ((unsigned char *)buf)[tjv_c] == LE(((unsigned char *)buf)[tjv_c]))").replace("LE(", LE + "("),
    "dec": "size",
    "map": {"d": FN + "::1::d", "size": FN + "::size", "buf": FN + "::buf", "tjv_c": "tjv_c"},
}
CLEAN_SRC = "repo:src/backend/tinyjambu-clean.c"
JOBS = [
    {"name": "clean.exact", "files": ["harness/h_clean.c", CLEAN_SRC], "functions": [FN], "loops": [CLEAN_LOOP],
     "props": ["C20", "C06"], "unwind": 3, "cost": 5, "mem_gb": 4, "mem_share": 0.25,
     "unbounded": "every size 0..2^32-1, exact-size object, all prior contents (volatile-loop configuration)"},
    {"name": "clean.arena", "files": ["harness/h_clean.c", CLEAN_SRC], "defs": ["TJV_ARENA"], "functions": [FN], "loops": [CLEAN_LOOP],
     "props": ["C20", "C06"], "unwind": 3, "cost": 5, "mem_gb": 4, "mem_share": 0.25,
     "unbounded": "every size, every offset 0..15 (alignment) inside a larger object, bytes on both sides unchanged"},
    {"name": "clean.bzero", "files": ["harness/h_clean_bzero.c", "stubs/libc_bzero.c", CLEAN_SRC], "defs": ["HAVE_EXPLICIT_BZERO", "HAVE_STRINGS_H"],
     "functions": [FN], "props": ["C20"], "unwind": 3, "cost": 3, "mem_gb": 4, "mem_share": 0.25,
     "unbounded": "every size (HAVE_EXPLICIT_BZERO configuration)",
     "assumes": ["libc contract of explicit_bzero (stubs/libc_bzero.c): zeroes exactly n bytes and is not elided by the compiler"]},
]
SRC = {0: "repo:src/tinyjambu-hash.c", 1: "repo:src/tinyjambu-hmac.c", 2: "repo:src/tinyjambu-hkdf.c", 3: "repo:src/tinyjambu-prng.c"}
NAMES = {0: "hash", 1: "hmac", 2: "hkdf", 3: "prng"}
for w in range(4):
    files = ["harness/h_free.c", CLEAN_SRC, SRC[w]] + (["repo:src/tinyjambu-hash.c"] if w == 1 else [])
    JOBS.append({"name": "free." + NAMES[w], "files": files, "defs": ["WHICH=%d" % w],
                 "functions": ["tinyjambu_%s_free" % NAMES[w], FN], "loops": [CLEAN_LOOP],
                 "props": ["C20"], "unwind": 3, "cost": 5, "mem_gb": 4, "mem_share": 0.25,
                 "allow_no_body": ["tinyjambu_", "memcpy", "memset", "getrandom"],
                 "unbounded": "all prior contents of the state object (= all histories)"})

JOBS.append({"name": "clean.grid", "files": ["harness/h_clean_grid.c", CLEAN_SRC], "functions": [FN],
             "grid": [{"label": "sz%d" % n, "defs": ["TJV_SZ=%d" % n]} for n in (0, 1, 2, 3, 4, 7, 8, 9, 13, 32, 56)],
             "props": ["C20", "C06"], "unwind": 70, "cost": 5, "mem_gb": 4, "mem_share": 0.2, "timeout": 120,
             "bounded": "sizes {0,1,2,3,4,7,8,9,13,32,56} at every offset 0..15 inside a larger object (volatile-loop configuration), loops unwound"})
