"""L2: HMAC / HKDF / PBKDF2 over the contract stubs of the hash API (C12, C13, C14)."""
from .jobs_clean import CLEAN_SRC
HMAC = "repo:src/tinyjambu-hmac.c"
HKDF = "repo:src/tinyjambu-hkdf.c"
PBKDF2 = "repo:src/tinyjambu-pbkdf2.c"
ABS = ["stubs/hash_abs.c", "stubs/mem.c", "stubs/clean_stub.c"]
JOBS = []


def split_grid(job, parts):
    """one job per slice of the grid, so that the points run on several cores"""
    g = job["grid"]
    out = []
    for i in range(parts):
        sl = g[i::parts]
        if not sl:
            continue
        j = dict(job)
        j["name"] = "%s.%d" % (job["name"], i)
        j["grid"] = sl
        j["cost"] = job.get("cost", 10) / parts
        out.append(j)
    return out


def hmac_grid(kls, mls, modes=(0, 1)):
    return [{"label": "k%d_m%d_mode%d" % (k, m, md), "defs": ["KL=%d" % k, "ML=%d" % m, "MODE=%d" % md]}
            for k in kls for m in mls for md in modes]


JOBS += split_grid({
    "name": "hmac.rfc2104.grid", "files": ["harness/h_hmac.c", HMAC] + ABS,
    "functions": ["tinyjambu_hmac", "tinyjambu_hmac_init", "tinyjambu_hmac_reinit", "tinyjambu_hmac_update", "tinyjambu_hmac_finalize",
                  "tinyjambu_hmac_set_key (static, inlined)"],
    "grid": hmac_grid((0, 1, 31, 32, 33, 63, 64, 65, 66, 80, 129), (0, 17)) + hmac_grid((20, 64, 65), (1, 16, 33, 40)),
    "props": ["C12"], "unwind": 200, "timeout": 120, "cost": 40, "mem_gb": 6, "mem_share": 0.3,
    "bounded": "key lengths {0,1,31,32,33,63,64,65,66,80,129} x message lengths {0,17} and key lengths {20,64,65} x message lengths {1,16,33,40}; one-shot and init/update/reinit/update/update/finalize; all key and message bytes symbolic; H = arbitrary function",
    "assumes": ["hash API replaced by its contract (stubs/hash_abs.c): digest = H(bytes absorbed since init); discharged for the real hash by C10/C11 (hash.* jobs)",
                "tinyjambu_clean replaced by its contract stub (zeroes the buffer; discharged by clean.* jobs)"],
}, 8)
JOBS += split_grid({
    "name": "hmac.rfc2104.gridt", "files": ["harness/h_hmac.c", HMAC] + ABS,
    "functions": ["tinyjambu_hmac", "tinyjambu_hmac_init", "tinyjambu_hmac_reinit", "tinyjambu_hmac_update", "tinyjambu_hmac_finalize"],
    "grid": hmac_grid(range(0, 131), (3,), modes=(0,)) + hmac_grid((7, 64, 70), range(0, 49), modes=(1,)),
    "props": ["C12"], "unwind": 200, "timeout": 120, "cost": 400, "mem_gb": 6, "mem_share": 0.3,
    "bounded": "every key length 0..130 (message length 3, one-shot) and every message length 0..48 for key lengths {7,64,70} (incremental with reinit); symbolic contents",
}, 16)

# ---------------------------------------------------------------- HKDF
LE = "__CPROVER_loop_entry"
EX = "tinyjambu_hkdf_expand"
B = "(pstate->counter == 0 ? 255 : (int)pstate->counter - 1)"
SERVED = "(32 * %s - (32 - (int)pstate->posn))" % B
B0 = "(LE(pstate->counter) == 0 ? 255 : (int)LE(pstate->counter) - 1)"
SERVED0 = "(32 * %s - (32 - (int)LE(pstate->posn)))" % B0
JOBS.append({
    "name": "hkdf.expand.sm", "files": ["harness/h_hkdf_sm.c", HKDF, "stubs/hmac_frame.c", "stubs/memcpy_ghost.c", "stubs/memset_ghost.c"],
    "functions": [EX], "defs": ["TJV_HKDF"],
    "loops": [{
        "fn": EX, "idx": 0, "line": r"outlen > 0",
        "assigns": "out, outlen, len, __CPROVER_object_whole(&hmac), __CPROVER_object_whole(state), __CPROVER_object_whole(tjv_out0), tjv_fill_base, tjv_fill_len, tjv_hm_finals_at_init, tjv_hkdf_n, tjv_hm_inits, tjv_hm_finals, tjv_hm_reinits, tjv_hm_upd, tjv_hm_open, tjv_hm_last1, tjv_hm_have1, tjv_hm_last4, tjv_hm_have4",
        "inv": ("outlen <= LE(outlen) && out == LE(out) + (LE(outlen) - outlen) && __CPROVER_same_object(out, tjv_out0) && pstate->posn >= 1 && pstate->posn <= 32 && (outlen > 0 ==> pstate->posn == 32) && "
                "SERVED == SERVED0 + (long)(LE(outlen) - outlen) && "
                "tjv_hm_inits == LE(tjv_hm_inits) + (unsigned long)(BB - BB0) && tjv_hm_finals == LE(tjv_hm_finals) + (unsigned long)(BB - BB0)"
                ).replace("SERVED0", SERVED0).replace("SERVED", SERVED).replace("BB0", B0).replace("BB", B).replace("LE(", LE + "("),
        "dec": "outlen",
        "map": {"out": EX + "::out", "outlen": EX + "::outlen", "len": EX + "::1::len", "hmac": EX + "::1::hmac", "state": EX + "::state",
                "pstate": EX + "::1::pstate", "tjv_out0": "tjv_out0", "tjv_fill_base": "tjv_fill_base", "tjv_fill_len": "tjv_fill_len", "tjv_hm_finals_at_init": "tjv_hm_finals_at_init", "tjv_hkdf_n": "tjv_hkdf_n", "tjv_hm_inits": "tjv_hm_inits", "tjv_hm_finals": "tjv_hm_finals", "tjv_hm_reinits": "tjv_hm_reinits",
                "tjv_hm_upd": "tjv_hm_upd", "tjv_hm_open": "tjv_hm_open", "tjv_hm_last1": "tjv_hm_last1", "tjv_hm_have1": "tjv_hm_have1",
                "tjv_hm_last4": "tjv_hm_last4", "tjv_hm_have4": "tjv_hm_have4"},
    }],
    "props": ["C13", "C06"], "default_props": ["C13"], "unwind": 34, "stub_unwind": 34, "cost": 60, "mem_gb": 16,
    "allow_no_body": ["tinyjambu_clean", "tinyjambu_hash"],
    "unbounded": "outlen <= 2^40 (loop contract), arbitrary valid prior state (every counter 0..255, posn 1..32), arbitrary infolen",
    "assumes": ["HMAC API replaced by frame-only contract stubs (stubs/hmac_frame.c): values arbitrary, protocol counted"],
})

L2FILES = [HMAC] + ABS
JOBS += split_grid({
    "name": "hkdf.step.grid", "files": ["harness/h_hkdf_fn.c", HKDF] + L2FILES, "defs": ["WHICH=0", "TJV_CAP=192", "NMEMO=16"],
    "functions": ["tinyjambu_hkdf_expand", "tinyjambu_hmac_*"],
    "grid": [{"label": "n%d_p%d_o%d_i%d" % (n, p, o, i), "defs": ["NN=%d" % n, "POSN=%d" % p, "OL=%d" % o, "IL=%d" % i]}
             for (n, p, o, i) in [(1, 32, 0, 3), (1, 32, 1, 0), (1, 32, 32, 10), (1, 32, 33, 10), (1, 32, 70, 3), (2, 17, 5, 3), (2, 17, 15, 0),
                                  (2, 17, 16, 10), (2, 17, 47, 3), (3, 1, 31, 3), (7, 1, 64, 0), (2, 32, 64, 20), (200, 32, 40, 5), (254, 20, 44, 3)]],
    "props": ["C13"], "unwind": 200, "timeout": 300, "cost": 80, "mem_gb": 8, "mem_share": 0.3,
    "bounded": "block number n in {1,2,3,7,200,254}, posn in {1,17,20,32}, per-call outlen in {0..70 selected}, infolen in {0,3,5,10,20}; PRK, T(n-1), info symbolic; H arbitrary",
    "assumes": ["hash API replaced by its contract (stubs/hash_abs.c), discharged by C10/C11"],
}, 6)
JOBS += split_grid({
    "name": "hkdf.extract.grid", "files": ["harness/h_hkdf_fn.c", HKDF] + L2FILES, "defs": ["WHICH=1", "TJV_CAP=192", "NMEMO=12"],
    "functions": ["tinyjambu_hkdf_extract"],
    "grid": [{"label": "k%d_s%d" % (k, sl), "defs": ["KL=%d" % k, "SL=%d" % sl]} for (k, sl) in [(0, 0), (13, 0), (22, 13), (80, 80), (64, 65), (1, 64)]],
    "props": ["C13"], "unwind": 200, "timeout": 300, "cost": 30, "mem_gb": 8, "mem_share": 0.3,
    "bounded": "(keylen, saltlen) in {(0,0),(13,0),(22,13),(80,80),(64,65),(1,64)}, symbolic contents",
}, 3)
JOBS.append({
    "name": "hkdf.oneshot.cap", "files": ["harness/h_hkdf_cap.c", HKDF],
    "remove_bodies": ["tinyjambu_hkdf_extract", "tinyjambu_hkdf_expand", "tinyjambu_hkdf_free"],
    "functions": ["tinyjambu_hkdf"], "props": ["C13", "C06"], "default_props": ["C13"], "unwind": 3, "cost": 2, "mem_gb": 4, "mem_share": 0.1,
    "unbounded": "every outlen (all of size_t), all other arguments",
})

# ---------------------------------------------------------------- PBKDF2
JOBS += split_grid({
    "name": "pbkdf2.grid", "files": ["harness/h_pbkdf2.c", PBKDF2] + L2FILES, "defs": ["TJV_CAP=160", "NMEMO=72"],
    "functions": ["tinyjambu_pbkdf2", "tinyjambu_pbkdf2_f (static, inlined)", "tinyjambu_hmac_*"],
    "grid": [{"label": "p%d_s%d_c%d_o%d" % (p, sl, c, o), "defs": ["PL=%d" % p, "SL=%d" % sl, "CNT=%d" % c, "OL=%d" % o]}
             for (p, sl, c, o) in [(8, 4, 1, 32), (5, 8, 2, 33), (64, 8, 3, 1), (65, 0, 1, 40), (0, 0, 0, 31), (24, 36, 2, 64), (63, 5, 2, 0), (9, 20, 2, 70)]],
    "props": ["C14"], "unwind": 200, "timeout": 400, "cost": 100, "mem_gb": 8, "mem_share": 0.3,
    "bounded": "(passwordlen, saltlen, count, outlen) in {(8,4,1,32),(5,8,2,33),(64,8,3,1),(65,0,1,40),(0,0,0,31),(24,36,2,64),(63,5,2,0),(9,20,2,70)}; all password and salt bytes symbolic; H arbitrary",
    "assumes": ["hash API replaced by its contract (stubs/hash_abs.c), discharged by C10/C11"],
}, 8)
PB = "tinyjambu_pbkdf2"
INNER = {"fn": "tinyjambu_pbkdf2_f", "idx": 0, "line": r"count > 2",
         "assigns": "count, __CPROVER_object_whole(T), __CPROVER_object_whole(U), __CPROVER_object_whole(state), tjv_hm_reinits, tjv_hm_finals, tjv_hm_upd, tjv_hm_open, tjv_acc, tjv_hm_last_out",
         "inv": "count >= 2 && count <= LE(count) && tjv_hm_finals - tjv_hm_finals_at_init == 2 + (LE(count) - count) && LE(count) == tjv_count && tjv_hm_last_out == U && T[tjv_gg] == tjv_acc".replace("LE(", LE + "("),
         "dec": "count",
         "map": {"count": "tinyjambu_pbkdf2_f::count", "T": "tinyjambu_pbkdf2_f::T", "U": "tinyjambu_pbkdf2_f::U", "state": "tinyjambu_pbkdf2_f::state",
                 "tjv_hm_reinits": "tjv_hm_reinits",
                 "tjv_hm_finals": "tjv_hm_finals", "tjv_hm_upd": "tjv_hm_upd", "tjv_hm_open": "tjv_hm_open",
                 "tjv_hm_finals_at_init": "tjv_hm_finals_at_init", "tjv_count": "tjv_count", "tjv_acc": "tjv_acc", "tjv_gg": "tjv_gg", "tjv_hm_last_out": "tjv_hm_last_out"}}
OUTER = {"fn": PB, "idx": 0, "line": r"outlen > 0",
         "assigns": "out, outlen, blocknum, __CPROVER_object_whole(&state), __CPROVER_object_whole(U), __CPROVER_object_whole(tjv_out0), tjv_hm_inits, tjv_hm_finals, tjv_hm_reinits, tjv_hm_upd, tjv_hm_open, tjv_hm_finals_at_init, tjv_hm_last4, tjv_hm_have4, tjv_hm_last1, tjv_hm_have1, tjv_acc, tjv_acc_prev, tjv_hm_last_out",
         "inv": ("blocknum >= 1 && blocknum - 1 <= LE(outlen) / 32 && outlen <= LE(outlen) && LE(outlen) - outlen == 32 * (blocknum - 1) && out == LE(out) + (LE(outlen) - outlen) && "
                 "__CPROVER_same_object(out, tjv_out0) && tjv_hm_inits == blocknum - 1 && count == tjv_count").replace("LE(", LE + "("),
         "dec": "outlen",
         "map": {"out": PB + "::out", "outlen": PB + "::outlen", "blocknum": PB + "::1::blocknum", "state": PB + "::1::state", "U": PB + "::1::U",
                 "count": PB + "::count", "tjv_out0": "tjv_out0", "tjv_hm_inits": "tjv_hm_inits", "tjv_hm_finals": "tjv_hm_finals", "tjv_hm_reinits": "tjv_hm_reinits",
                 "tjv_hm_upd": "tjv_hm_upd", "tjv_hm_open": "tjv_hm_open", "tjv_hm_finals_at_init": "tjv_hm_finals_at_init",
                 "tjv_hm_last4": "tjv_hm_last4", "tjv_hm_have4": "tjv_hm_have4", "tjv_hm_last1": "tjv_hm_last1", "tjv_hm_have1": "tjv_hm_have1", "tjv_count": "tjv_count", "tjv_acc": "tjv_acc", "tjv_acc_prev": "tjv_acc_prev", "tjv_hm_last_out": "tjv_hm_last_out"}}
SHAPE = {"files": ["harness/h_pbkdf2_shape.c", PBKDF2, "stubs/hmac_frame.c", "stubs/memcpy_ghost.c", "stubs/clean_stub.c"],
         "functions": [PB, "tinyjambu_pbkdf2_f (static)"], "props": ["C14", "C06"], "default_props": ["C14"],
         "unwind": 34, "stub_unwind": 34, "cost": 40, "mem_gb": 12,
         "assumes": ["HMAC API replaced by frame-only contract stubs (stubs/hmac_frame.c): values arbitrary, protocol counted and checked"]}
for cnt in (0, 1):
    JOBS.append(dict(SHAPE, name="pbkdf2.shape.blocks.c%d" % cnt, defs=["TJV_PBKDF2", "TJV_BLOCKS=%d" % (cnt + 1), "TJV_GHOST_OUT"], loops=[OUTER],
                     pre_unwind=[("tinyjambu_pbkdf2_f", 0, r"count > 2", 1)],
                     unbounded="outlen <= 2^40 (loop contract on the block loop: block numbering INT32BE(i) at every block, ceil(outlen/32) blocks, exactly outlen bytes), count = %d" % cnt))
JOBS.append(dict(SHAPE, name="pbkdf2.shape.chain", defs=["TJV_PBKDF2", "TJV_OL=40"], loops=[INNER], unwind=66,
                 unbounded="every count (all of unsigned long): loop contract on the PRF-chain loop (exactly max(count,1) PRF evaluations per block); outlen = 40"))

JOBS.append({
    "name": "hmac.setkey.u", "files": ["harness/h_hmac_setkey.c", HMAC, "stubs/mem.c", "stubs/clean_stub.c"],
    "functions": ["tinyjambu_hmac_init", "tinyjambu_hmac_set_key (static, inlined)"],
    "props": ["C12", "C06"], "default_props": ["C12"], "tags": [(r"^hmac set_key:", ["C12"])], "unwind": 66, "cost": 20, "mem_gb": 8, "mem_share": 0.3,
    "unbounded": "every key length <= 2^40 (all loops of set_key are bounded by the 64-byte block: complete unwinding), key in an exact-size object, all key bytes",
    "assumes": ["hash API replaced by a protocol-recording contract stub (arbitrary digest)"],
})

JOBS.append({
    "name": "hmac.finalize.u", "files": ["harness/h_hmac_final.c", HMAC, "stubs/mem.c", "stubs/clean_stub.c"],
    "functions": ["tinyjambu_hmac_finalize", "tinyjambu_hmac_set_key (static, inlined)"],
    "props": ["C12", "C06"], "default_props": ["C12"], "tags": [(r"^hmac finalize:", ["C12"])], "unwind": 66, "cost": 20, "mem_gb": 8, "mem_share": 0.3,
    "unbounded": "every key length <= 2^40, key in an exact-size object, all key bytes, arbitrary inner state",
    "assumes": ["hash API replaced by a protocol-recording contract stub (arbitrary digests)"],
})

JOBS.append({
    "name": "hkdf.extract.u", "files": ["harness/h_hkdf_extract.c", HKDF],
    "functions": ["tinyjambu_hkdf_extract"], "props": ["C13", "C06"], "default_props": ["C13"], "unwind": 34, "cost": 3, "mem_gb": 4, "mem_share": 0.2,
    "allow_no_body": ["tinyjambu_clean", "memcpy", "memset"],
    "unbounded": "every keylen and saltlen <= 2^40 incl. NULL salt, exact-size objects",
    "assumes": ["HMAC API replaced by a protocol-recording contract stub (arbitrary MAC value); HMAC itself: C12"],
})

JOBS.append({
    "name": "hmac.oneshot.seq", "files": ["harness/h_hmac_seq.c", HMAC],
    "remove_bodies": ["tinyjambu_hmac_init", "tinyjambu_hmac_reinit", "tinyjambu_hmac_update", "tinyjambu_hmac_finalize", "tinyjambu_hmac_free"],
    "functions": ["tinyjambu_hmac"], "props": ["C12", "C06"], "default_props": ["C12"], "unwind": 34, "cost": 2, "mem_gb": 4, "mem_share": 0.1,
    "allow_no_body": ["tinyjambu_hash", "memcpy", "memset"],
    "unbounded": "every keylen and inlen (all of size_t)",
})

for nm, d in (("hmac.reinit.u", "TJV_REINIT"), ("hmac.update.seq", "TJV_UPDATE")):
    JOBS.append({
        "name": nm, "files": ["harness/h_hmac_setkey.c", HMAC, "stubs/mem.c", "stubs/clean_stub.c"], "defs": [d],
        "functions": ["tinyjambu_hmac_reinit" if "REINIT" in d else "tinyjambu_hmac_update"],
        "props": ["C12", "C06"], "default_props": ["C12"], "tags": [(r"^hmac set_key:", ["C12"])], "unwind": 66, "cost": 20, "mem_gb": 8, "mem_share": 0.3,
        "unbounded": "every length <= 2^40, exact-size object, arbitrary prior state contents",
        "assumes": ["hash API replaced by a protocol-recording contract stub (arbitrary digest)"],
    })

# ---------------------------------------------------------------- denser value grids for the thorough tier
_step = [j for j in JOBS if j["name"] == "hkdf.step.grid.0"][0]
JOBS += split_grid(dict(_step, name="hkdf.step.gridt",
    grid=[{"label": "n%d_p%d_o%d_i%d" % (n, p, o, i), "defs": ["NN=%d" % n, "POSN=%d" % p, "OL=%d" % o, "IL=%d" % i]}
          for (n, p, o, i) in [(1, 32, 31, 1), (1, 32, 64, 40), (2, 7, 24, 1), (2, 7, 25, 1), (2, 7, 26, 40), (2, 31, 1, 0), (2, 31, 2, 0), (2, 31, 34, 1),
                               (3, 32, 96, 0), (100, 1, 63, 1), (100, 1, 64, 1), (253, 32, 64, 3), (254, 9, 23, 0), (254, 9, 56, 40), (5, 32, 65, 1), (9, 16, 48, 40)]],
    cost=160,
    bounded="16 more (n, posn, outlen, infolen) shapes incl. n up to 254, outlen up to 96 (three blocks), infolen up to 40"), 8)
_pb = [j for j in JOBS if j["name"] == "pbkdf2.grid.0"][0]
JOBS += split_grid(dict(_pb, name="pbkdf2.gridt",
    grid=[{"label": "p%d_s%d_c%d_o%d" % (p, sl, c, o), "defs": ["PL=%d" % p, "SL=%d" % sl, "CNT=%d" % c, "OL=%d" % o]}
          for (p, sl, c, o) in [(1, 1, 1, 1), (64, 0, 2, 32), (65, 16, 2, 33), (100, 3, 1, 64), (33, 47, 3, 31), (8, 8, 0, 65), (16, 12, 2, 65), (0, 36, 1, 96)]],
    cost=160,
    bounded="8 more (passwordlen, saltlen, count, outlen) shapes incl. three output blocks and a 47-byte salt"), 8)
