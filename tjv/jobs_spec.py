"""Specification-level lemmas on spec/tick.h (our code; loop contracts written in place)."""
JOBS = []
for d, ks, nm in ((0, 0, "aead.rt"), (1, 0, "aead.rt2"), (0, 1, "siv.rt")):
    JOBS.append({
        "name": "spec." + nm, "files": ["harness/h_spec_rt.c"], "defs": ["DIR=%d" % d, "SIVKS=%d" % ks],
        "functions": ["tjv_stream_post (spec/tick.h)"],
        "apply_inline_loop_contracts": True,
        "props": ["C01", "C03"] if not ks else ["C08"], "default_props": ["C01", "C03"] if not ks else ["C08"],
        "tags": [(r"spec lemma", ["C01", "C03"] if not ks else ["C08"])],
        "unwind": 9, "cost": 5, "mem_gb": 4, "mem_share": 0.25,
        "unbounded": "all message lengths <= 2^40, all data, all states, every permutation function",
    })
