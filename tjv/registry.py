"""All jobs and the property table."""
from . import jobs_util, jobs_perm, jobs_aead, jobs_spec, jobs_clean, jobs_hash, jobs_l2, jobs_prng, jobs_ct, jobs_stub, native, facts

JOBS = {}
for mod in (jobs_util, jobs_perm, jobs_aead, jobs_spec, jobs_clean, jobs_hash, jobs_l2, jobs_prng, jobs_ct, jobs_stub):
    for j in mod.JOBS:
        assert j["name"] not in JOBS, j["name"]
        JOBS[j["name"]] = j

# native replay of counterexamples for the AEAD / SIV family
for n, j in JOBS.items():
    if n.startswith(("aead", "siv")) and (".grid" in n or n.endswith((".u", ".ui"))):
        j["replay"] = native.aead_replay

TRUSTED = [
    "CBMC 6.11 C semantics: LP64, little-endian x86-64 model, bit-vector machine arithmetic exactly as C defines it",
    "goto-instrument legacy (non-DFCC) loop-contract and function-contract instrumentation",
    "SAT back ends: minisat 2.2.1 (built in) / kissat 4.0.1 (external)",
    "CBMC's libc models; where a copy length is symbolic stubs/mem.c (byte loops, checked equal to the built-in models for n <= 64 by stub.mem.equiv) or the ghost-index models stubs/mem*_ghost.c are linked",
    "the specification text: spec/nlfsr.h (bit-serial NLFSR), spec/tick.h (per-block mode semantics), program tables in stubs/mon.c; validated natively against all 8584 vectors of /repo/test/kat on every run (a test, not a proof)",
    "gcc/clang compile the same source faithfully (compilers, optimisation levels, sanitizer builds, assembly backends are outside a source-level verifier)",
]
MODULAR = ("modular step: callers are verified against the contract stubs of setup/absorb/generate_tag/check_tag and of the permutation "
           "(stubs/mon.c); every stub contract is discharged against the real callee in leaf*.*, util.check_tag.* and perm*.R* jobs; "
           "the composition (a theorem proved for every permutation function holds for the NLFSR) is the standard modular argument, not re-checked by the tool")

NN = (128, 192, 256)
LEAF = ["leaf%d.%s" % (n, k) for n in NN for k in ("setup", "tag", "absorb", "absorb.al")]
UTIL = ["util.check_tag.contract", "util.check_tag.size8", "util.check_tag.grid"]
PERM_Q = [j["name"] for j in jobs_perm.JOBS if j["quick"]]
PERM_ALL = [j["name"] for j in jobs_perm.JOBS]
PERM_LIB = ["perm128.R05", "perm128.R08", "perm192.R05", "perm192.R09", "perm256.R05", "perm256.R10"]


def names(mode, kinds, suffixes):
    return ["%s%d.%s.%s" % (mode, n, k, s) for n in NN for k in kinds for s in suffixes]


PROPS = {
    "C01": {
        "level": "proof",
        "quick": LEAF + UTIL + names("aead", ["enc", "dec"], ["grid"]) + ["spec.aead.rt", "spec.aead.rt2"],
        "thorough": LEAF + UTIL + names("aead", ["enc", "dec"], ["grid", "u", "ui"]) + ["spec.aead.rt", "spec.aead.rt2"],
        "pre": [native.katcheck], "campaign": native.huge_campaign("aead"),
        "text": "encrypt == SpecEnc and decrypt == SpecDec for the real tinyjambu_{128,192,256}_aead_{encrypt,decrypt} (spec monitor inside the permutation's contract stub; leaf functions under contracts; loop contracts close the data loops for all lengths in the thorough tier) + spec-level lemma SpecDec(SpecEnc(m)) = m with equal tags for every permutation; in-place variants with a load-before-store ghost check.",
        "note": "quick tier: AD loop (absorb), setup, tag, check_tag unbounded; the message loops of encrypt/decrypt are covered by the bounded grid (concrete lengths, symbolic data) and unbounded only in the thorough tier. " + MODULAR + ". Alignment: CBMC's memory model is alignment-insensitive (all accesses in these files are byte-wide). Compilers/optimisation levels not covered.",
        "technique": "CBMC contracts: spec monitor in callee contract stubs + loop contracts on the real loops",
        "trusted": TRUSTED,
    },
    "C02": {
        "level": "proof",
        "quick": PERM_LIB + LEAF + names("aead", ["enc"], ["grid"]),
        "thorough": PERM_LIB + LEAF + names("aead", ["enc"], ["grid", "u"]),
        "pre": [native.katcheck, native.aead_compilers], "campaign": native.huge_campaign("aead"),
        "text": "L0: the C permutations equal the bit-serial NLFSR of the specification for the round counts the AEAD uses (5, 8/9/10), all states and keys; L1: encrypt == SpecEnc (frame bits 1/3/5/7, 640-step and long permutations, partial-block length injection, two-squeeze tag) for every permutation function.",
        "note": "spec <-> TinyJAMBU v2 paper correspondence is by reading plus native KAT replay of the reference model; message loop unbounded only in the thorough tier (quick: bounded grid). " + MODULAR + ". Compilers, optimisation levels, shared vs static objects not covered.",
        "technique": "CBMC equivalence miter (kissat) for the permutation + contract/loop-contract proofs against the spec monitor",
        "trusted": TRUSTED,
    },
    "C03": {
        "level": "proof",
        "quick": UTIL + LEAF + names("aead", ["dec"], ["grid", "short"]) + ["spec.aead.rt2"],
        "thorough": UTIL + LEAF + names("aead", ["dec"], ["grid", "short", "u"]) + ["spec.aead.rt2"],
        "pre": [native.katcheck], "campaign": native.huge_campaign("aead"),
        "text": "check_tag contract (0 iff all 8 bytes equal, else -1; complete over all 2^128 tag pairs; unbounded plaintext length) + decrypt == SpecDec with 'check_tag receives the specification's tag and the received tag, all 8 bytes' + lemma RT2 (the recomputed tag is the tag encryption yields for the recovered plaintext) + clen < 8: negative result, nothing written, no cipher call.",
        "note": "the 2^-64 forgery bound is a cryptographic property of the NLFSR and is not decided. (accum - 1) >> 8 on a negative int is implementation-defined (arithmetic shift assumed, as gcc/clang). Decrypt message loop unbounded only in the thorough tier. " + MODULAR,
        "technique": "CBMC function contract + loop contracts on check_tag; spec monitor for decrypt",
        "trusted": TRUSTED,
    },
    "C04": {
        "level": "proof",
        "quick": UTIL + names("aead", ["dec"], ["grid"]) + names("siv", ["dec"], ["grid"]),
        "thorough": UTIL + names("aead", ["dec"], ["grid", "ui"]) + names("siv", ["dec"], ["grid", "ui"]),
        "campaign": native.huge_campaign("aead"),
        "text": "check_tag postcondition at an arbitrary ghost index: reject => byte is 0, accept => byte unchanged, for every plaintext length up to 2^40 (loop contract); the 6 decrypt functions pass the start of the plaintext buffer and the full length (asserted by the check_tag contract stub) and on reject every plaintext byte is 0.",
        "note": "the decrypt-side argument-passing obligation is checked on the bounded grid in the quick tier and unboundedly (loop contracts) in the thorough tier. " + MODULAR,
        "technique": "CBMC function contract with ghost index + loop contracts",
        "trusted": TRUSTED,
    },
    "C05": {
        "level": "proof",
        "quick": PERM_Q,
        "thorough": PERM_ALL,
        "text": "tinyjambu_permutation_{128,192,256} (portable C backend) == 128*R bit-serial NLFSR steps for all 2^128 states and all keys, R = 0..24 (thorough; quick: R in {0,1,2,5,8|9|10,20} per key size); key words unchanged (frame); each obligation loop-free after complete unwinding (unwinding assertions on).",
        "note": "ONLY the portable C backend. The 24 assembly files (AVR5, ARMv6/6-M/7-M, RV32E/32I/64I, Xtensa both ABIs), callee-saved registers/stack discipline and byte-identity with the generator programs are out of reach of CBMC (no assembly front end; an instruction-to-C translation would be a hand-written model) - a mutation of a .S file or generator is NOT detected by this check.",
        "technique": "CBMC equivalence miter, complete unwinding, kissat back end",
        "trusted": TRUSTED,
        "exhaustive": True,
    },
    "C08": {
        "level": "proof",
        "quick": LEAF + UTIL + names("siv", ["enc", "dec"], ["grid"]) + names("siv", ["dec"], ["short"]) + ["spec.siv.rt"],
        "thorough": LEAF + UTIL + names("siv", ["enc", "dec"], ["grid", "u", "ui"]) + names("siv", ["dec"], ["short"]) + ["spec.siv.rt"],
        "pre": [native.katcheck], "campaign": native.huge_campaign("aead"),
        "text": "siv_encrypt == SpecSivEnc and siv_decrypt == SpecSivDec (two-pass program: MAC pass with nonce domain 9, keystream pass keyed by npub[0..3] || tag with domains B/D) for the 6 real functions; decrypt's MAC pass runs over the recovered plaintext and check_tag gets the specification's tag and the received tag; keystream lemma SpecDec(SpecEnc(m)) = m; clen < 8 rejected without processing.",
        "note": "keystream loops unbounded only in the thorough tier (quick: bounded grid). " + MODULAR,
        "technique": "CBMC contracts: spec monitor in callee contract stubs + loop contracts",
        "trusted": TRUSTED,
    },
    "C09": {
        "level": "proof",
        "quick": LEAF + names("siv", ["enc"], ["grid"]),
        "thorough": LEAF + names("siv", ["enc"], ["grid", "u"]),
        "pre": [native.katcheck], "campaign": native.huge_campaign("aead"),
        "text": "construction part: siv_encrypt output == documented two-pass construction for every input: tag = TinyJAMBU MAC over (nonce, AD, plaintext) with nonce domain 0x90; body = plaintext XOR keystream whose permutation inputs are functions of (key, npub[0..3], tag) only (the plaintext enters only the output XOR in pass 2).",
        "note": "NOT decided: 'two messages differing in any bit get different IVs and unrelated bodies beyond chance' is a probabilistic statement about the MAC (PRF assumption); it follows from the construction and is recorded as an assumption. Determinism: no other inputs (see C19). " + MODULAR,
        "technique": "CBMC contracts: spec monitor in callee contract stubs + loop contracts",
        "trusted": TRUSTED,
        "assumptions": ["nonce-misuse resistance beyond the construction equality (distinct inputs => distinct IVs except by chance) is cryptographic, not decided"],
    },
}

PROPS["C20"] = {
    "level": "proof",
    "quick": [j["name"] for j in jobs_clean.JOBS],
    "text": "tinyjambu_clean (volatile-loop configuration) zeroes exactly [buf, buf+size) for every size 0..2^32-1, exact-size object and any alignment inside a larger object (loop contract, ghost index on both sides); explicit_bzero configuration forwards exactly (buf, size); hash/hmac/hkdf/prng free functions zero every byte of the public state object from arbitrary prior contents (= any history); free(NULL) is a no-op for hash/hmac.",
    "note": "whether the compiler keeps the stores (volatile / explicit_bzero survive optimisation) is below C semantics and NOT covered; explicit_bzero's own behaviour is an assumed libc contract; SecureZeroMemory / memset_s configurations are not compiled on this platform.",
    "technique": "CBMC loop contract with ghost index on the real tinyjambu-clean.c; loop-free harnesses for the free functions",
    "trusted": TRUSTED,
    "exhaustive": False,
}

for n, j in JOBS.items():
    if n.startswith("hash."):
        j["replay"] = native.lib_replay("hash")
    if n.startswith("util."):
        j["replay"] = native.aead_campaign_replay
    if n.startswith("clean."):
        j["replay"] = native.lib_replay("clean")
    if n.startswith("free."):
        j["replay"] = native.lib_replay("free")
PROPS["C20"]["campaign"] = native.lib_campaign("clean")

HASH_Q = ["hash.init", "hash.reinit", "hash.finalize", "hash.update.grid", "hash.oneshot.seq", "free.hash"]
PROPS["C10"] = {
    "level": "proof",
    "quick": ["perm256.R20"] + HASH_Q,
    "thorough": ["perm256.R20"] + HASH_Q + ["hash.update.u", "hash.oneshot.grid"],
    "pre": [native.katcheck], "campaign": native.huge_campaign("hash"),
    "text": "real tinyjambu-hash.c == MDPH spec monitor (in the contract stub of tinyjambu_permutation_256): per 16-byte block two 2560-step encryptions under key R || M, inputs L^dom and L^dom^1, feed-forward XORs, 10* padding and domain 2 for the final block, output L || R little-endian; update from an ARBITRARY valid state; one-shot = init; update; finalize; free (call-sequence contract); composed with L0 (permutation_256, R = 20 == bit-serial NLFSR).",
    "note": "quick tier: update is covered by the bounded grid (posn x inlen shapes, every alignment, symbolic data); the unbounded loop-contract proof of hash_update for every inlen runs in the thorough tier. memcpy/memset are byte loops of our own (stubs/mem.c, trusted). Big-endian branch of hash_compress (#if !LW_UTIL_LITTLE_ENDIAN) is not compiled and not verified. Compilers/optimisation levels not covered.",
    "technique": "CBMC contracts: MDPH spec monitor in the permutation's contract stub + loop contract on hash_update",
    "trusted": TRUSTED,
}
PROPS["C11"] = {
    "level": "proof",
    "quick": HASH_Q,
    "thorough": HASH_Q + ["hash.update.u"],
    "campaign": native.huge_campaign("hash"),
    "text": "abstract-view contracts: update from an arbitrary valid state (any posn < 16, L, R, buffered bytes) advances the view by a byte-wise fold over its input (the monitor consumes bytes by its own cursor), hence any split into update calls gives the same view; init/reinit from arbitrary bytes establish the initial view completely; finalize = final(view); NULL/0 and empty updates leave the view unchanged; every function writes only its own state object (exact-size objects).",
    "note": "the induction over the call history (each operation verified for all valid pre-states; init establishes validity from arbitrary bytes) is the standard representation-invariant meta-step, stated, not re-checked by the tool. Quick tier: bounded (posn, inlen) grid incl. the 'top up, compress, continue' path; thorough tier: unbounded loop contract for every inlen.",
    "technique": "CBMC contracts with abstract view (representation invariant posn < 16) + loop contract",
    "trusted": TRUSTED,
}

for n, j in JOBS.items():
    if n.startswith("hmac."):
        j["replay"] = native.lib_replay("hmac")
    if n.startswith("hkdf."):
        j["replay"] = native.lib_replay("hkdf")
    if n.startswith("pbkdf2."):
        j["replay"] = native.lib_replay("pbkdf2")
L2NOTE = ("L2 is strictly modular: the hash API is replaced by its contract (stubs/hash_abs.c: digest = H(bytes absorbed since init), H an arbitrary "
          "function); that the real hash satisfies it for every chunking is C10/C11. Value obligations are BOUNDED IN LENGTH (stated grid of concrete "
          "lengths) and complete in values (all bytes symbolic, every H); the scalar state machines are unbounded via loop contracts. ")
PROPS["C12"] = {
    "level": "proof",
    "quick": ["hmac.setkey.u", "hmac.reinit.u", "hmac.update.seq", "hmac.finalize.u", "hmac.oneshot.seq"] + [n for n in JOBS if n.startswith("hmac.rfc2104.grid.")] + ["hash.update.grid", "hash.init", "hash.finalize"],
    "thorough": ["hmac.setkey.u", "hmac.reinit.u", "hmac.update.seq", "hmac.finalize.u", "hmac.oneshot.seq"] + [n for n in JOBS if n.startswith("hmac.rfc2104.grid")] + ["hash.update.grid", "hash.init", "hash.finalize", "hash.update.u"],
    "campaign": native.lib_campaign("hmac"),
    "text": "UNBOUNDED in the key length: hmac_init / hmac_finalize protocol contracts for every keylen (inner block K0 xor ipad, outer block K0 xor opad, inner digest fed to the outer hash, keys > 64 hashed whole once); hmac_update is a call-through to hash_update (any chunking: C11). Value level: real tinyjambu-hmac.c (one-shot, and init/update/reinit/update/update/finalize) over the hash API's contract == RFC 2104 (block 64, keys > 64 hashed first, key = 64 used as is, empty key) over the same arbitrary hash function H, on a grid of key/message lengths with all bytes symbolic; hmac_update is a call-through to hash_update, so any chunking of the message is covered by C11's unbounded update contract.",
    "note": L2NOTE + "Quick grid: key lengths {0,1,31,32,33,63,64,65,66,80,129} x message lengths {0,17} and {20,64,65} x {1,16,33,40}; thorough: every key length 0..130 and every message length 0..48. For keylen > 64 the code makes one hash_update(key, keylen) whatever the length, so longer keys differ only inside the hash.",
    "technique": "CBMC: real code over contract stubs of the callee API (abstract hash function) vs RFC reference; bounded lengths, symbolic values",
    "trusted": TRUSTED,
}
PROPS["C13"] = {
    "level": "proof",
    "quick": ["hkdf.expand.sm", "hkdf.oneshot.cap", "hkdf.extract.u"] + [n for n in JOBS if n.startswith(("hkdf.step.grid.", "hkdf.extract.grid."))],
    "thorough": ["hkdf.expand.sm", "hkdf.oneshot.cap", "hkdf.extract.u"] + [n for n in JOBS if n.startswith(("hkdf.step.grid.", "hkdf.extract.grid.", "hkdf.step.gridt."))],
    "campaign": native.lib_campaign("hkdf"),
    "text": "unbounded: hkdf_expand state machine from an arbitrary valid (counter, posn) for every outlen (loop contract): -1 iff the request passes byte 8160, served bytes advance by exactly outlen capped at 8160, zero fill beyond, one HMAC per new block and, for every block number n and every infolen, the block protocol T(n) = HMAC(PRK, T(n-1) (n > 1) || info || n) stored as the current block, counter wrap 255 -> 0 terminal; extract for every keylen/saltlen = HMAC(salt, IKM) into PRK, counter 1; one-shot: refuses exactly outlen > 8160 and then writes nothing / derives nothing, else extract + one expand. Bounded: expand step == RFC 5869 recurrence from an abstract state (PRK, T(n-1), n, posn) and extract == HMAC(salt or 32 zeros, key) over an arbitrary hash function.",
    "note": L2NOTE + "Step grid: n in {1,2,3,7,200,254}, posn in {1,17,20,32}, outlen up to 70, infolen up to 20; extract grid: 6 (keylen, saltlen) pairs. In the state-machine proof the HMAC API is a frame-only stub and memcpy/memset into the unbounded output are modelled at one arbitrary ghost index (stubs/mem*_ghost.c).",
    "technique": "CBMC loop contract on the real hkdf_expand (ghost 'bytes served' view) + bounded functional step over contract stubs",
    "trusted": TRUSTED,
}

PROPS["C14"] = {
    "level": "proof",
    "quick": [n for n in JOBS if n.startswith("pbkdf2.") and not n.startswith("pbkdf2.gridt.")],
    "thorough": [n for n in JOBS if n.startswith("pbkdf2.")],
    "campaign": native.lib_campaign("pbkdf2"),
    "text": "unbounded shape: block loop for every outlen (loop contract): block i is derived from salt || INT32BE(i) at every block, ceil(outlen/32) F evaluations, exactly outlen bytes written (exact-size object, last partial block through a local buffer); PRF-chain loop for every count (loop contract): exactly max(count,1) PRF evaluations per block. Bounded: end-to-end output == RFC 8018 over RFC 2104 over an arbitrary hash function on a grid of (passwordlen, saltlen, count, outlen).",
    "note": L2NOTE + "Grid: (8,4,1,32),(5,8,2,33),(64,8,3,1),(65,0,1,40),(0,0,0,31),(24,36,2,64),(63,5,2,0),(9,20,2,70). The block-loop proof fixes count to 0 and 1 (the chain code then folds away; the chain loop is closed separately for every count at outlen 40); in the shape proofs the HMAC API is a frame-only stub and PRF outputs landing in the unbounded output buffer are modelled at one arbitrary ghost index.",
    "technique": "CBMC loop contracts on the real pbkdf2 loops (protocol-counting callee stubs) + bounded end-to-end equivalence over contract stubs",
    "trusted": TRUSTED,
}

for n, j in JOBS.items():
    if n.startswith("prng."):
        j["replay"] = native.lib_replay("prng")
    if n.startswith("trng."):
        j["replay"] = native.trng_replay
PRNG_FN = [n for n in JOBS if n.startswith(("prng.generate.fn.", "prng.ops.fn."))]
PRNG_FNT = [n for n in JOBS if n.startswith("prng.generate.fnt.")]
PRNG_BUDGET = ["prng.generate.budget", "prng.set_limit", "prng.feed.budget", "prng.reseed.budget", "prng.init.budget"]
PROPS["C15"] = {
    "level": "proof",
    "quick": PRNG_FN + ["prng.generate.budget", "prng.feed.proto", "prng.reseed.proto", "prng.init.proto"],
    "thorough": PRNG_FN + PRNG_FNT + ["prng.generate.budget", "prng.feed.proto", "prng.reseed.proto", "prng.init.proto"],
    "campaign": native.lib_campaign("prng"),
    "text": "per operation, from an arbitrary valid state (V, C symbolic), real tinyjambu-prng.c over the hash API's contract == documented Hash_DRBG: generate: each block = Hash(V), then V += Hash(3||V) + C + counter (256-bit big-endian add), counter + 1, automatic reseed exactly when counter > limit, entropy requests exactly there; feed: V' = Hash_df(1||V||data), C' = Hash_df(0||V'); reseed: V' = Hash_df(1||V||E), E = old V overwritten by the delivered bytes; instantiate: V = Hash_df(entropy||custom). Loop shape of generate for every size: prng.generate.budget (unbounded). Derivation PROTOCOL of feed / reseed / instantiate for every data length and every delivery count (prng.*.proto, unbounded): Hash_df header, marker, old V, data; C from the new V; counters.",
    "note": L2NOTE + "Sizes: generate {0,1,32,33,40,64,70} x (counter, limit, delivery) classes; feed {0,5,40}; deliveries {0,7,13,31,32,33,40}; custom {0,3,9}. Determinism over whole call histories is the representation-invariant meta-step (each operation verified from every valid state), stated, not checked by the tool.",
    "technique": "CBMC: real code over contract stubs of the callee API (abstract hash) vs SP 800-90A reference; loop contract for the generate loop",
    "trusted": TRUSTED,
}
PROPS["C16"] = {
    "level": "proof",
    "quick": PRNG_BUDGET,
    "campaign": native.lib_campaign("prng"),
    "text": "ghost counter B = blocks emitted since the last entropy request, maintained in the callee stubs: generate for EVERY size from an arbitrary valid state (1 <= limit <= 32768, counter >= 1, B <= counter - 1) emits every block within the budget B + 1 <= limit (checked before every block, so a lowered limit applies at the next block) and re-establishes the invariant; set_reseed_limit = clamp(ceil(limit/32), 1, 32768) for every size_t; feed / reseed / init preserve the invariant, feed never decreases the counter (saturating at 2^32 - 1 after the fix).",
    "note": "on the pinned tree tinyjambu_prng_feed wrapped the 32-bit counter (finding F2, fixed by a 'fix:' commit, see known_findings.txt). Hash API = frame-only stubs (values irrelevant for the budget); callback = contract stub delivering arbitrary bytes.",
    "technique": "CBMC loop contract with ghost budget counter in callee contract stubs",
    "trusted": TRUSTED,
}
PROPS["C17"] = {
    "level": "proof",
    "quick": [n for n in JOBS if n.startswith("prng.ops.fn")] + ["prng.reseed.budget", "prng.init.budget", "prng.reseed.proto", "prng.init.proto"],
    "campaign": native.lib_campaign("prng"),
    "text": "init_user / reseed return 1 exactly when the source delivered 32 bytes - for EVERY delivery count (prng.reseed.proto / prng.init.proto, all of size_t) and on the value grids (0, 7, 13, 31, 32, 33, 40); after a short delivery the state is the specified function of the old state and the delivered bytes and valid(state) holds, so every later operation's contract applies; init_user(NULL callback) stores the system source, equals plain init state-for-state, returns the source's status, and later reseeds call the system source (no NULL call).",
    "note": "on the pinned tree init_user called through the NULL argument (finding F1, fixed by a 'fix:' commit). 'Not constant output' is covered as 'output is the specified function of a state that depends on the old state'; entropy quality is not a contract matter. " + L2NOTE,
    "technique": "CBMC: real code over contract stubs (scripted entropy callback / system source) vs reference",
    "trusted": TRUSTED,
}
PROPS["C18"] = {
    "level": "proof",
    "quick": ["trng.getrandom", "trng.getentropy", "trng.syscall"] + [n for n in JOBS if n.startswith("prng.ops.fn")],
    "campaign": native.trng_campaign,
    "text": "tinyjambu_trng_generate in the getrandom(), getentropy() and raw-syscall build variants against a ghost fault script: for every finite sequence of EINTR/EAGAIN failures the retry loop terminates (loop contract, ghost fuel as measure) with exactly the 32 OS bytes and status 1; a permanent error gives status 0 and a zeroed buffer; one OS call per failure plus one; no open/close exists in these variants (no descriptor to leak); PRNG init maps the status to seeded / not seeded and stays usable (prng.ops.fn init_null).",
    "note": "the libc/OS contract (32-byte requests are all-or-error, errno set on failure) is assumed in stubs/os_entropy.c; the /dev/urandom read() fallback is not selectable with this platform's headers and is out of scope.",
    "technique": "CBMC loop contract with termination measure on the real retry loop; OS calls as contract stubs with a ghost fault script",
    "trusted": TRUSTED,
}

def _all_campaigns(tier, seed, root):
    """C06 fallback: every native differential campaign (guard bytes around every output, NULL/0 arguments)"""
    texts = []
    for fn in (native.aead_campaign, native.lib_campaign("hash"), native.lib_campaign("hmac"), native.lib_campaign("hkdf"),
               native.lib_campaign("pbkdf2"), native.lib_campaign("prng"), native.lib_campaign("clean")):
        r = fn(tier, seed, root)
        if r.get("violation"):
            return r
        texts.append(r["text"])
    return {"text": " | ".join(t.split(": ", 1)[-1] for t in texts)}


C06_JOBS = (UTIL + LEAF + names("aead", ["enc", "dec"], ["grid"]) + names("siv", ["enc", "dec"], ["grid"]) + names("aead", ["dec"], ["short"])
            + names("siv", ["dec"], ["short"]) + HASH_Q + ["hkdf.expand.sm", "hkdf.oneshot.cap", "pbkdf2.shape.blocks.c0", "pbkdf2.shape.blocks.c1",
               "pbkdf2.shape.chain", "prng.generate.budget", "prng.set_limit", "prng.feed.budget", "prng.reseed.budget", "prng.init.budget",
               "clean.exact", "clean.arena", "free.hmac", "free.hkdf", "free.prng", "trng.getrandom", "trng.getentropy", "trng.syscall",
               "hmac.setkey.u", "hmac.finalize.u", "hmac.rfc2104.grid.0", "hmac.rfc2104.grid.5", "hkdf.step.grid.4", "hkdf.extract.grid.0", "pbkdf2.grid.1", "prng.ops.fn.0", "prng.generate.fn.4", "prng.feed.proto", "prng.reseed.proto", "prng.init.proto", "hkdf.extract.u", "stub.mem.equiv", "clean.grid", "hmac.reinit.u", "hmac.update.seq", "hmac.oneshot.seq"])
PROPS["C06"] = {
    "level": "proof",
    "quick": C06_JOBS,
    "thorough": C06_JOBS + ["hash.update.u", "aead128.enc.ui", "siv128.enc.ui"]
                + [n for n in JOBS if n.startswith(("hmac.rfc2104.grid.", "hkdf.step.grid.", "hkdf.extract.grid.", "pbkdf2.grid.", "prng.ops.fn.", "prng.generate.fn."))],
    "campaign": _all_campaigns, "pre": [native.sanitizer_campaign],
    "text": "for every API function reached by the harnesses: CBMC's pointer-dereference, array-bounds, signed-overflow, undefined-shift and division checks on the real code, with every caller buffer an object of EXACTLY the declared length (any access outside the declared range is an object-bounds failure), symbolic lengths closed by loop contracts (absorb, check_tag, clean, hkdf_expand, pbkdf2, prng_generate, trng retry; message loops in the thorough tier) or concrete on the grids (the unbounded message-loop proofs of the 12 AEAD/SIV functions, which carry the same safety obligations for every length, run in the thorough tiers of C01/C03/C04/C08), loop and function frames (assigns clauses), 'inputs unchanged' at ghost indices, NULL with zero length (AEAD/SIV AD and message, hash_update), exact aliasing c == m (in-place variants), guard bytes behind outputs.",
    "note": "outputs never depend on uninitialised memory: CBMC gives uninitialised memory nondeterministic values, so every functional postcondition (C01-C04, C08-C15) proves independence for that output; there is no separate definedness check. memcpy(dst, NULL, 0) (hash_update(st, NULL, 0) with posn > 0, NULL salts) accesses nothing; ISO C before C2y calls it undefined - recorded as an observation, not a violation. Alignment: CBMC's memory model is alignment-insensitive; all buffer accesses in the code are byte-wide; code that inspects pointer bits is covered by the alignment-offset grids. Optimised production objects and sanitizer builds are not covered.",
    "technique": "CBMC safety obligations + frame (assigns) obligations on the real code under contracts, exact-size objects, loop contracts",
    "trusted": TRUSTED,
}
CT_JOBS = [j["name"] for j in jobs_ct.JOBS]
PROPS["C07"] = {
    "level": "other",
    "quick": CT_JOBS,
    "text": "BOUNDED, control flow only: 2-safety self-composition on branch traces (goto-instrument --branch hook at every conditional branch): each operation runs twice on equal public inputs (concrete lengths, counts, key-length classes) and independent symbolic secrets; the two sequences of branch decisions must be identical for all secret values. Covered: check_tag, the 12 AEAD/SIV functions with setup/absorb/generate_tag, the three C permutations, hash init/update/finalize, HMAC (key-length classes 0, 20, 64, 65, 80).",
    "note": "bounded public shapes (listed per job); memory ADDRESSES are not traced (the code has no secret-indexed table lookups: every index is a loop counter or posn - supporting observation, not a proof); compiled machine code at -O2/-O3 is outside a source-level verifier; HKDF/PBKDF2/PRNG control flow depends only on public counters and is covered through their HMAC/hash callees plus the state-machine proofs, not by separate trace jobs.",
    "technique": "CBMC self-composition over instrumented branch traces (bounded public shapes)",
    "trusted": TRUSTED,
    "explanation": "bounded model checking of a 2-safety (non-interference) property on branch traces of the real C code; complete in the secret values for each listed public shape, not a proof for all shapes, no statement about addresses or machine code",
}
PROPS["C19"] = {
    "level": "other",
    "quick": ["hash.oneshot.seq", "hash.init", "hash.reinit", "hkdf.oneshot.cap", "leaf128.setup", "leaf128.tag", "util.check_tag.contract", "clean.arena", "free.prng", "trng.getrandom", "prng.init.budget",
              "hkdf.expand.sm", "prng.reseed.proto", "prng.init.proto"] + [n for n in JOBS if n.startswith(("hkdf.step.grid.", "prng.ops.fn."))],
    "pre": [facts.library_facts],
    # a result that depends on what the state object or the stack held before (not on the call's inputs) shows up as a
    # failed functional obligation of these jobs, which start from ARBITRARY prior contents: counted for C19 as well
    "adopt": ["C11", "C13", "C15", "C17"],
    "text": "(1) frames: every function under contract writes only objects reachable from its pointer arguments (assigns clauses and exact-size objects turn any other write into a failed obligation); (1b) every operation is verified from ARBITRARY prior contents of the state object and of its own locals (CBMC gives uninitialised memory arbitrary values), so a result that depends on leftovers of earlier unrelated calls fails a functional obligation; (2) facts read from the goto binary of the WHOLE library built from the current tree: no writable object with static storage duration is defined by library code and no heap or non-reentrant libc function is called. From (1) and (2) two calls on disjoint objects have disjoint frames and read no shared mutable location, hence commute.",
    "note": "thread SCHEDULES are not explored (CBMC's concurrency support is not part of this technique): 'concurrent calls equal serial execution' follows from the disjoint-frame argument, which is a stated meta-step; the symbol-table scan is a supporting static fact, not a deductive proof. errno (thread-local in glibc) is written by the OS calls in the TRNG.",
    "technique": "contract frames (CBMC assigns obligations) + symbol-table / call-graph facts of the goto binary",
    "trusted": TRUSTED,
    "explanation": "frame obligations are discharged deductively per function; absence of global state is established by scanning the symbol table and call graph of the library's goto binary on every run; schedules are not explored",
}

ALL = ["C%02d" % i for i in range(1, 21)]
NOT_APPLICABLE = {k: "check under construction in this session (see DESIGN.md section 4); not claimed until its obligations are discharged"
                  for k in ALL if k not in PROPS}
