"""All jobs and the property table."""
from . import jobs_util

JOBS = {}
for mod in (jobs_util,):
    for j in mod.JOBS:
        assert j["name"] not in JOBS, j["name"]
        JOBS[j["name"]] = j

TRUSTED = [
    "CBMC 6.11 C semantics: LP64, little-endian x86-64 model, bit-vector machine arithmetic exactly as C defines it",
    "goto-instrument legacy (non-DFCC) loop-contract and function-contract instrumentation",
    "SAT back ends: minisat 2.2.1 (built in) / kissat 4.0.1 (external)",
    "CBMC's libc models except memcpy/memset where stubs/mem.c (byte loop) is linked",
    "gcc/clang compile the same source faithfully (compilers, optimisation levels, sanitizer builds, assembly backends are outside a source-level verifier)",
]

PROPS = {
    "C03": {
        "level": "proof",
        "quick": ["util.check_tag.contract", "util.check_tag.size8"],
        "text": "tinyjambu_aead_check_tag under an enforced function contract with loop contracts (unbounded plaintext length): result -1 iff some tag byte differs, 0 iff all equal (size 8 complete over all 2^128 tag pairs).",
        "note": "decrypt-level obligations (accept iff trailing 8 bytes equal the spec tag) are being added; 2^-64 forgery bound is cryptographic and not decided",
        "technique": "CBMC function contract + loop contracts on the real tinyjambu-util.c",
        "trusted": TRUSTED,
    },
}

NOT_APPLICABLE = {k: "check under construction in this session (see DESIGN.md section 4); not claimed until its obligations are discharged"
                  for k in ["C01", "C02", "C04", "C05", "C06", "C07", "C08", "C09", "C10", "C11", "C12", "C13", "C14", "C15", "C16", "C17", "C18", "C19", "C20"]}
