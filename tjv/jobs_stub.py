"""Checks on the verification machinery's own stubs (reduce the trusted base)."""
JOBS = [{
    "name": "stub.mem.equiv", "files": ["harness/h_memstub.c", "stubs/mem_named.c"],
    "functions": ["memcpy/memset byte-loop stubs"], "props": ["C06"], "default_props": ["C06"], "unwind": 70, "cost": 5, "mem_gb": 4, "mem_share": 0.2,
    "unbounded": "lengths 0..64 (the largest constant any caller uses), all contents",
}]
