"""Native side: reference-model validation against the KAT files, replay of CBMC counterexamples on the real code,
fallback differential campaigns.  Everything is compiled on each run from /repo's working tree into the run's scratch dir."""
import os
import re
import threading

from . import pipeline as P
from .pipeline import ToolError, VERIF, REPO

_lock = threading.Lock()
_built = {}

CONF = ["-DHAVE_GETRANDOM", "-DHAVE_SYS_RANDOM_H", "-DHAVE_EXPLICIT_BZERO", "-DHAVE_STRINGS_H", "-DHAVE_SYS_SYSCALL_H",
        "-DHAVE_UNISTD_H", "-DHAVE_FCNTL_H"]


def real_sources(exclude=()):
    srcs = []
    for d in ("src", "src/backend"):
        for f in sorted(os.listdir(os.path.join(REPO, d))):
            if f.endswith(".c") and f not in exclude:
                srcs.append(os.path.join(REPO, d, f))
    srcs.append(os.path.join(REPO, "src/random/tinyjambu-trng-dev-random.c"))
    return [s for s in srcs if os.path.basename(s) not in exclude]


def build(name, sources, root, extra=(), with_real=True, exclude=(), cc="gcc"):
    """gcc (or clang) build of a native tool; cached per run directory."""
    with _lock:
        key = (name, root)
        if key in _built:
            return _built[key]
        d = os.path.join(root, "native")
        os.makedirs(d, exist_ok=True)
        exe = os.path.join(d, name)
        cmd = [cc, "-O1", "-g", "-w", "-D_GNU_SOURCE", "-I" + os.path.join(REPO, "src"), "-I" + os.path.join(VERIF, "spec"),
               "-I" + os.path.join(VERIF, "native"), "-I" + os.path.join(VERIF, "include")] + CONF + list(extra)
        cmd += [os.path.join(VERIF, s) for s in sources]
        if with_real:
            cmd += real_sources(exclude)
        cmd += ["-o", exe]
        rc, out, _ = P.run(cmd, d, 300, mem_gb=8)
        if rc != 0:
            raise ToolError("native build of %s failed:\n%s" % (name, out[-1500:]))
        _built[key] = exe
        return exe


def run_tool(exe, args, root, timeout=600):
    rc, out, secs = P.run([exe] + [str(a) for a in args], os.path.dirname(exe), timeout, mem_gb=8)
    return rc, out, secs


def katcheck(tier, seed, root):
    exe = build("katcheck", ["native/katcheck.c"], root, with_real=False)
    rc, out, secs = run_tool(exe, [os.path.join(REPO, "test/kat")], root)
    if rc != 0:
        raise ToolError("oracle validation failed: the reference model does not reproduce /repo/test/kat: " + out[-400:])
    return {"text": "oracle validation (a test, not a proof): " + out.strip().split("\n")[-1]}


def _fail_lines(out, n=6):
    return [l for l in out.split("\n") if l.startswith("FAIL")][:n]


def aead_campaign(tier, seed, root):
    exe = build("diff_aead", ["native/diff_aead.c"], root)
    iters = 3000 if tier == "quick" else 40000
    rc, out, secs = run_tool(exe, ["campaign", seed, iters], root)
    cmd = "native/diff_aead campaign %d %d" % (seed, iters)
    if rc == 1:
        return {"violation": True, "name": "native.diff_aead", "obligation": "real library == reference model (AEAD/SIV/check_tag)",
                "text": "\n".join(_fail_lines(out)), "cmd": cmd, "reproduced": True}
    if rc != 0:
        raise ToolError("diff_aead crashed (rc %s): %s" % (rc, out[-600:]))
    return {"text": "native differential campaign (fallback, not proof): " + out.strip().split("\n")[-1], "cmd": cmd}


def _arr(vals, name, n):
    bs = []
    for i in range(n):
        v = vals.get("%s[%dl]" % (name, i), vals.get("%s[%d]" % (name, i)))
        if v is None:
            break
        try:
            bs.append(int(v) & 0xFF)
        except ValueError:
            break
    return "".join("%02x" % b for b in bs) or "-"


def _defval(defs, key, default=None):
    for d in defs:
        if d.startswith(key + "="):
            return d.split("=", 1)[1]
        if d == key:
            return "1"
    return default


def aead_replay(job, vals, seed, root):
    """Replay a counterexample of an AEAD/SIV job on the real code against the reference model."""
    defs = list(job.get("defs", []))
    if vals.get("grid"):
        for g in job.get("grid", []):
            if g["label"] == vals["grid"]:
                defs += g["defs"]
    nnn = int(_defval(defs, "NNN", "128"))
    prog = int(_defval(defs, "PROG", "1"))
    inplace = 1 if _defval(defs, "INPLACE") else 0
    try:
        adlen = int(vals.get("tjw_adlen", _defval(defs, "TJV_AD", "0")))
        mlen = int(vals.get("tjw_mlen", _defval(defs, "TJV_ML", "0")))
    except (TypeError, ValueError):
        adlen, mlen = 0, 0
    big = ""
    if adlen > (1 << 24) or mlen > (1 << 24):
        big = " (lengths of the counterexample reduced modulo 4 KiB for the native run: adlen %d mlen %d)" % (adlen, mlen)
        adlen = adlen % 4096
        mlen = mlen % 4096
    exe = build("diff_aead", ["native/diff_aead.c"], root)
    args = ["case", nnn, prog, adlen, mlen, inplace, _arr(vals, "tjw_key", 32), _arr(vals, "tjw_npub", 12),
            _arr(vals, "tjw_ad", 16), _arr(vals, "tjw_in", 24)]
    rc, out, secs = run_tool(exe, args, root)
    cmd = "native/diff_aead " + " ".join(str(a) for a in args)
    if rc == 1:
        return {"reproduced": True, "cmd": cmd, "text": "\n".join(_fail_lines(out)) + big}
    if rc == 0:
        # the exact inputs do not fail natively: look for a failing input of the same function nearby
        rc2, out2, _ = run_tool(exe, ["campaign", seed, 4000], root)
        if rc2 == 1:
            return {"reproduced": True, "cmd": "native/diff_aead campaign %d 4000" % seed,
                    "text": "counterexample inputs pass natively; seeded campaign found: " + "\n".join(_fail_lines(out2))}
        return {"reproduced": False, "cmd": cmd, "text": "native run of the counterexample inputs and a 4000-case campaign agree with the reference model" + big}
    raise ToolError("diff_aead crashed on replay (rc %s): %s" % (rc, out[-400:]))


def lib_campaign(what):
    """fallback / replay campaign of native/diff_lib.c for one family (hash, hmac, hkdf, pbkdf2, prng, clean, free)"""
    def run(tier, seed, root):
        iters = 1500 if tier == "quick" else 20000
        exes = [(build("diff_lib", ["native/diff_lib.c"], root), "host configuration (HAVE_EXPLICIT_BZERO)")]
        if what in ("clean", "free"):
            exes.append((build("diff_lib_volatile", ["native/diff_lib.c"], root, extra=["-UHAVE_EXPLICIT_BZERO", "-O2"]),
                         "volatile-fallback configuration of tinyjambu_clean, -O2"))
        texts = []
        for exe, label in exes:
            rc, out, secs = run_tool(exe, [what, seed, iters], root, timeout=900)
            cmd = "native/%s %s %d %d" % (os.path.basename(exe), what, seed, iters)
            if rc == 1:
                return {"violation": True, "name": "native.diff_lib." + what, "obligation": "real library == reference model (%s)" % what,
                        "text": "\n".join(_fail_lines(out)) + "  [" + label + "]", "cmd": cmd, "reproduced": True}
            if rc != 0:
                # a crash of the real code (e.g. SIGSEGV through a NULL callback) is a failing input, not a tool error
                return {"violation": True, "name": "native.diff_lib." + what, "obligation": "real library runs without crashing (%s)" % what,
                        "text": "native run terminated abnormally (rc %s): %s" % (rc, out[-300:]), "cmd": cmd, "reproduced": True}
            texts.append(out.strip().split("\n")[-1] + " [" + label + "]")
        return {"text": "native differential campaign (fallback/replay, not proof): " + "; ".join(texts), "cmd": cmd}
    return run


def lib_replay(what):
    camp = lib_campaign(what)

    def rp(job, vals, seed, root):
        r = camp("quick", seed, root)
        if r.get("violation"):
            return {"reproduced": True, "cmd": r.get("cmd"), "text": r["text"]}
        return {"reproduced": False, "cmd": r.get("cmd"), "text": "seeded native campaign agrees with the reference model: " + r["text"]}
    return rp


def aead_campaign_replay(job, vals, seed, root):
    r = aead_campaign("quick", seed, root)
    if r.get("violation"):
        return {"reproduced": True, "cmd": r.get("cmd"), "text": r["text"]}
    return {"reproduced": False, "cmd": r.get("cmd"), "text": r["text"]}


def trng_campaign(tier, seed, root):
    d = os.path.join(root, "native")
    os.makedirs(d, exist_ok=True)
    src = os.path.join(REPO, "src/random/tinyjambu-trng-dev-random.c")
    objs = []
    for nm, defs in (("getrandom", ["-DHAVE_GETRANDOM", "-DHAVE_SYS_RANDOM_H", "-Dgetrandom=tjv_getrandom"]),
                     ("getentropy", ["-DHAVE_GETENTROPY", "-DHAVE_SYS_RANDOM_H", "-Dgetentropy=tjv_getentropy"]),
                     ("syscall", ["-DHAVE_SYS_SYSCALL_H", "-Dsyscall=tjv_syscall"])):
        o = os.path.join(d, "trng_%s.o" % nm)
        cmd = ["gcc", "-O1", "-w", "-c", "-I" + os.path.join(REPO, "src"), "-Dtinyjambu_trng_generate=trng_" + nm] + defs + [src, "-o", o]
        rc, out, _ = P.run(cmd, d, 120)
        if rc != 0:
            raise ToolError("native build of the %s TRNG variant failed: %s" % (nm, out[-500:]))
        objs.append(o)
    exe = os.path.join(d, "diff_trng")
    rc, out, _ = P.run(["gcc", "-O1", "-w", os.path.join(VERIF, "native/diff_trng.c")] + objs + ["-o", exe], d, 120)
    if rc != 0:
        raise ToolError("native build of diff_trng failed: %s" % out[-500:])
    rc, out, secs = P.run([exe], d, 120)
    if rc == 1:
        return {"violation": True, "name": "native.diff_trng", "obligation": "system entropy source under fault injection", "text": "\n".join(_fail_lines(out)),
                "cmd": "native/diff_trng", "reproduced": True}
    if rc != 0:
        return {"violation": True, "name": "native.diff_trng", "obligation": "system entropy source terminates under fault injection",
                "text": "abnormal termination / hang (rc %s)" % rc, "cmd": "native/diff_trng", "reproduced": True}
    return {"text": "native fault injection (fallback/replay, not proof): " + out.strip().split("\n")[-1], "cmd": "native/diff_trng"}


def trng_replay(job, vals, seed, root):
    r = trng_campaign("quick", seed, root)
    return {"reproduced": bool(r.get("violation")), "cmd": r.get("cmd"), "text": r["text"]}


def aead_compilers(tier, seed, root):
    """Supporting test (not a proof): the AEAD/SIV differential campaign with the library built by clang -O2 and gcc -O3 as well -
    results must not depend on the compiler or optimisation level (unspecified evaluation order, UB exploited by one compiler)."""
    texts = []
    for cc, opt in (("clang", "-O2"), ("gcc", "-O3")):
        exe = build("diff_aead_%s%s" % (cc, opt), ["native/diff_aead.c"], root, extra=[opt], cc=cc)
        iters = 1500 if tier == "quick" else 20000
        rc, out, secs = run_tool(exe, ["campaign", seed, iters], root)
        cmd = "native/diff_aead (library built with %s %s) campaign %d %d" % (cc, opt, seed, iters)
        if rc != 0:
            return {"violation": True, "name": "native.diff_aead.%s" % cc, "obligation": "real library built with %s %s == reference model" % (cc, opt),
                    "text": "\n".join(_fail_lines(out)) or out[-300:], "cmd": cmd, "reproduced": True}
        texts.append("%s %s: %s" % (cc, opt, out.strip().split("\n")[-1]))
    return {"text": "compiler/optimisation-level differential test (a test, not a proof): " + "; ".join(texts)}


def huge_campaign(kind):
    """thorough-tier fallback for sizes >= 2^31 / 2^32 (self-consistency of the real library, see native/huge.c)"""
    def run(tier, seed, root):
        base = aead_campaign(tier, seed, root) if kind == "aead" else lib_campaign("hash")(tier, seed, root)
        if base.get("violation") or tier != "thorough":
            return base
        exe = build("huge", ["native/huge.c"], root, extra=["-O2"])
        texts = [base["text"]]
        for args in ((["aead", "31"], ["aead", "32"], ["ad"]) if kind == "aead" else (["hash"],)):
            rc, out, secs = run_tool(exe, args, root, timeout=1500)
            cmd = "native/huge " + " ".join(args)
            if rc == 1:
                return {"violation": True, "name": "native.huge." + kind, "obligation": "real library is self-consistent at sizes >= 2^31",
                        "text": "\n".join(_fail_lines(out)), "cmd": cmd, "reproduced": True}
            if rc == 99:
                texts.append(cmd + ": buffer could not be mapped (inconclusive)")
            elif rc != 0:
                return {"violation": True, "name": "native.huge." + kind, "obligation": "real library runs at sizes >= 2^31",
                        "text": "abnormal termination (rc %s)" % rc, "cmd": cmd, "reproduced": True}
            else:
                texts.append(out.strip().split("\n")[-1])
        return {"text": "; ".join(texts)}
    return run


def sanitizer_campaign(tier, seed, root):
    """Supporting test for C06 (not a proof): the differential campaigns with the library built with
    -fsanitize=undefined (misaligned access, shifts, signed overflow, ...) and unaligned buffers; any report aborts
    (out-of-bounds accesses are covered by the guard bytes of the same campaigns and, deductively, by the CBMC jobs)."""
    san = ["-fsanitize=undefined", "-fno-sanitize=nonnull-attribute", "-fno-sanitize-recover=all"]   # memcpy(dst, NULL, 0): observation, see C06     # ASan needs more address space than the memory limit of the runs allows
    texts = []
    for name, src, args in (("diff_aead_san", "native/diff_aead.c", ["campaign", seed, 600 if tier == "quick" else 6000]),
                            ("diff_lib_san", "native/diff_lib.c", ["all", seed, 200 if tier == "quick" else 2000])):
        exe = build(name, [src], root, extra=san)
        rc, out, secs = P.run([exe] + [str(a) for a in args], os.path.dirname(exe), 900, mem_gb=40,
                              env={"UBSAN_OPTIONS": "print_stacktrace=0"})
        cmd = "native/%s %s (library built with -fsanitize=undefined)" % (name, " ".join(str(a) for a in args))
        if rc != 0:
            lines = [l for l in out.split("\n") if "runtime error" in l or l.startswith("FAIL")][:4]
            return {"violation": True, "name": "native." + name, "obligation": "no sanitizer report (misaligned access, out-of-bounds access, undefined arithmetic) in the real library",
                    "text": "\n".join(lines) or out[-400:], "cmd": cmd, "reproduced": True}
        texts.append("%s: %s" % (name, out.strip().split("\n")[-1]))
    return {"text": "sanitizer build differential test (a test, not a proof): " + "; ".join(texts)}
