"""Per-property check driver: runs the jobs of a property, classifies obligations, replays violations,
writes evidence.  Exit status: 0 held, 1 violation (VIOLATION line printed), 2 tool error / undecided."""
import concurrent.futures as cf
import json
import os
import re
import shutil
import sys
import threading
import time
import traceback

from . import pipeline as P
from .pipeline import ToolError, VERIF, REPO

AUX = re.compile(r"loop invariant|Check decreases clause|Check invariant|Check that .* is assignable|Check that .* is valid|"
                 r"is side-effect free|unwinding assertion|decreases clause|variant|tjv aux:|recursion unwinding|Check step was unwound|no body for callee|loop instrumentation was not truncated", re.I)
SAFETY = re.compile(r"^(dereference failure|pointer |array |arithmetic overflow|shift |division by zero|memcpy |memset |"
                    r"same object violation|pointer relation|pointer arithmetic|NaN|free |double free|"
                    r"free argument|free called|max allocation|precondition_instance|.*dynamically allocated|.*dereferenced function pointer|"
                    r"no candidates for dereferenced function pointer|assertion false$|memmove |undefined shift|pointer_primitives|"
                    r"pointer invalid|pointer outside|deallocated dynamic object|dead object|invalid integer address|memcmp |enum range)", re.I)

_print_lock = threading.Lock()


def say(*a):
    with _print_lock:
        print(*a, flush=True)


def classify(job, desc, name=""):
    """-> ('prop', set(ids)) | ('aux', None)"""
    for pat, ids in job.get("tags", []):
        if re.search(pat, desc):
            return "prop", set(ids)
    if AUX.search(desc) or ".assigns." in name or "loop_" in name:
        return "aux", None
    m = re.match(r"^(C\d\d(?:/C\d\d)*):", desc)
    if m:
        return "prop", set(m.group(1).split("/"))
    if SAFETY.search(desc) or re.search(r"\.(pointer_dereference|array_bounds|overflow|undefined-shift|pointer_arithmetic|pointer)\.\d+$", name):
        return "prop", set(job.get("safety_props", ["C06"]))
    return "prop", set(job.get("default_props", job.get("props", [])))


class JobResult:
    def __init__(self, job):
        self.job = job
        self.error = None
        self.results = []
        self.secs = 0.0
        self.solver_s = 0.0
        self.vars = 0
        self.clauses = 0
        self.cmd = ""
        self.facts = {}
        self.reach = None
        self.failed = []       # [(result, kind, ids, tracefile, vals)]
        self.dir = None


def run_job(job, root, pid_prop, adopt=frozenset()):
    jr = JobResult(job)
    d = os.path.join(root, re.sub(r"[^A-Za-z0-9_.-]", "_", job["name"]))
    os.makedirs(d, exist_ok=True)
    jr.dir = d
    t0 = time.time()
    try:
        if job.get("grid"):
            # bounded stand-in: the same harness at a grid of concrete shapes; one build + cbmc run per point
            jr.facts = {"loops": [], "macro_loops": 0, "grid_points": [g["label"] for g in job["grid"]]}
            gb = None
            for g in job["grid"]:
                jg = dict(job)
                jg["defs"] = list(job.get("defs", [])) + list(g["defs"])
                dg = os.path.join(d, re.sub(r"[^A-Za-z0-9_.-]", "_", g["label"]))
                os.makedirs(dg, exist_ok=True)
                gbg, _ = P.build(jg, dg)
                v = P.verify(jg, os.path.join(dg, gbg), dg)
                for r in v["results"]:
                    r = dict(r)
                    r["grid"] = g["label"]
                    r["gdir"] = dg
                    r["gb"] = os.path.join(dg, gbg)
                    r["gdefs"] = jg["defs"]
                    jr.results.append(r)
                jr.solver_s += v["solver_s"]
                jr.vars = max(jr.vars, v["vars"])
                jr.clauses = max(jr.clauses, v["clauses"])
                jr.cmd = v["cmd"]
                if not any(r["status"] != "SUCCESS" for r in v["results"]) and not os.environ.get("TJV_KEEP"):
                    for f in os.listdir(dg):
                        if f.endswith(".gb"):
                            os.remove(os.path.join(dg, f))
        else:
            gb, facts = P.build(job, d)
            jr.facts = facts
            v = P.verify(job, gb, d)
            jr.results, jr.solver_s, jr.vars, jr.clauses, jr.cmd = v["results"], v["solver_s"], v["vars"], v["clauses"], v["cmd"]
        # expected obligation descriptions (committed): a lost obligation is a tool error
        exp_file = os.path.join(VERIF, "obligations", job["name"] + ".txt")
        have = set(r["desc"] for r in jr.results)
        if os.path.exists(exp_file):
            want = set(l.rstrip("\n") for l in open(exp_file) if l.strip() and not l.startswith("#"))
            missing = sorted(want - have)
            if missing:
                raise ToolError("job %s: expected obligation(s) no longer generated: %s" % (job["name"], "; ".join(missing[:4])))
        elif os.environ.get("TJV_RECORD"):
            pass
        if os.environ.get("TJV_RECORD"):
            os.makedirs(os.path.dirname(exp_file), exist_ok=True)
            keep = sorted(set(r["desc"] for r in jr.results if classify(job, r["desc"], r["name"])[0] == "prop"
                              and not SAFETY.search(r["desc"]) and re.search(r"\.assertion\.\d+$|postcondition", r["name"])))
            open(exp_file, "w").write("# property-level obligations expected from job %s (recorded on the pinned tree)\n" % job["name"]
                                      + "\n".join(keep) + "\n")
        for r in jr.results:
            if r["status"] != "SUCCESS":
                kind, ids = classify(job, r["desc"], r["name"])
                jr.failed.append([r, kind, ids, None, {}])
        # vacuity twin
        if job.get("reach", True) and not jr.failed:
            j2 = dict(job)
            j2.pop("grid", None)
            if job.get("grid"):
                j2["defs"] = list(job.get("defs", [])) + list(job["grid"][-1]["defs"])
            j2["defs"] = list(j2.get("defs", [])) + ["TJV_REACH"]
            d2 = os.path.join(d, "reach")
            os.makedirs(d2, exist_ok=True)
            gb2, _ = P.build(j2, d2)
            # only the reachability assertions are checked in the twin (the other obligations were decided above)
            rc_, out_, _ = P.run(["cbmc", gb2] + P.cbmc_flags(j2) + ["--show-properties"], d2, 300, mem_gb=j2.get("mem_gb", 12))
            rnames = []
            cur_name = None
            for l in out_.split("\n"):
                m = re.match(r"^Property (\S+):", l.strip())
                if m:
                    cur_name = m.group(1)
                elif cur_name and "TJV_REACH" in l:
                    rnames.append(cur_name)
                    cur_name = None
            extra = []
            for rn in rnames:
                extra += ["--property", rn]
            v2 = P.verify(j2, gb2, d2, extra=extra, tag="reach")
            rs = [r for r in v2["results"] if r["desc"].startswith("TJV_REACH")]
            if not rs:
                raise ToolError("job %s: reachability twin generated no TJV_REACH assertion" % job["name"])
            must = job.get("reach_must", ["TJV_REACH after"])
            for mpat in must:
                if not [r for r in rs if mpat in r["desc"]]:
                    raise ToolError("job %s: reachability twin lacks required assertion '%s'" % (job["name"], mpat))
            # harness-level points ("after ..."): every instance must be reachable; stub-level points are duplicated by
            # the loop-contract transformation (base / step / exit copies): at least one instance must be reachable
            notfail = [r["desc"] for r in rs if r["status"] != "FAILURE" and "TJV_REACH after" in r["desc"]]
            for mpat in must:
                if not [r for r in rs if mpat in r["desc"] and r["status"] == "FAILURE"]:
                    notfail.append(mpat)
            rs = [r for r in rs if r["status"] == "FAILURE"]
            if notfail:
                raise ToolError("job %s: vacuous: reachability assertion(s) did not fail: %s" % (job["name"], notfail[:3]))
            jr.reach = len(rs)
            shutil.rmtree(d2, ignore_errors=True)
        # traces for failed property obligations relevant to this property (at most 2)
        n = 0
        for f in jr.failed:
            if f[1] == "prop" and n < 2 and (pid_prop in f[2] or (adopt & f[2])):
                if f[0].get("gb"):
                    jt = dict(job)
                    jt["defs"] = f[0]["gdefs"]
                    txt, vals = P.trace(jt, f[0]["gb"], f[0]["gdir"], f[0]["name"])
                    vals["grid"] = f[0]["grid"]
                else:
                    txt, vals = P.trace(job, gb, d, f[0]["name"])
                f[3], f[4] = txt, vals
                n += 1
    except ToolError as ex:
        jr.error = str(ex)
    except Exception:
        jr.error = "internal error: " + traceback.format_exc()
    jr.secs = time.time() - t0
    return jr


def load_known():
    known, fixed = [], []
    p = os.path.join(VERIF, "known_findings.txt")
    if os.path.exists(p):
        for l in open(p):
            l = l.strip()
            if not l or l.startswith("#"):
                continue
            m = re.match(r"known: property=(C\d+) job=(\S+) obligation=/(.*?)/ (.*)$", l)
            if m:
                known.append({"prop": m.group(1), "job": m.group(2), "re": m.group(3), "text": m.group(4)})
            elif l.startswith("fixed:"):
                fixed.append(l)
    return known, fixed


def main(argv, PROPS, JOBS):
    if len(argv) < 2 or argv[1] not in PROPS:
        print("usage: check <C01..C20> [quick|thorough] [--replay path]")
        return 2
    pid = argv[1]
    tier = os.environ.get("VERIF_TIER") or "quick"
    if len(argv) > 2 and argv[2] in ("quick", "thorough"):
        tier = argv[2]
    seed = int(os.environ.get("VERIF_SEED", "1") or 1)
    prop = PROPS[pid]
    if "--replay" in argv:
        path = argv[argv.index("--replay") + 1]
        return replay_file(path, PROPS, JOBS)
    t0 = time.time()
    root = "/var/tmp/tjv.%d" % os.getpid()
    shutil.rmtree(root, ignore_errors=True)
    os.makedirs(root)
    status = 2
    try:
        status = _run(pid, tier, seed, prop, JOBS, root, t0)
    finally:
        if not os.environ.get("TJV_KEEP"):
            shutil.rmtree(root, ignore_errors=True)
    return status


def _run(pid, tier, seed, prop, JOBS, root, t0):
    names = prop["quick"] if tier == "quick" else prop.get("thorough", prop["quick"])
    jobs = []
    names = list(dict.fromkeys(names))          # a job listed twice would share its scratch directory
    for n in names:
        if n not in JOBS:
            raise SystemExit("unknown job " + n)
        jobs.append(JOBS[n])
    if os.environ.get("TJV_ONLY"):
        jobs = [j for j in jobs if re.search(os.environ["TJV_ONLY"], j["name"])]
    # native oracle validation / supporting facts (python callables returning (ok, text, count))
    pre_msgs = []
    pre_err = None
    pre_viol = []
    for fn in prop.get("pre", []):
        try:
            r = fn(tier, seed, root)
            pre_msgs.append(r.get("text", ""))
            if r.get("violation"):
                pre_viol.append(r)
        except ToolError as ex:
            pre_err = str(ex)
    # schedule: heavy jobs first; memory budget 56 GB
    jobs_sorted = sorted(jobs, key=lambda j: -j.get("cost", 10))
    maxw = int(os.environ.get("TJV_JOBS", "16"))
    budget = float(os.environ.get("TJV_MEM_GB", "56"))
    results = []
    sem_lock = threading.Condition()
    used = [0.0]

    def wrapped(job):
        need = job.get("mem_gb", 12) * job.get("mem_share", 0.5)
        with sem_lock:
            while used[0] + need > budget and used[0] > 0:
                sem_lock.wait()
            used[0] += need
        try:
            return run_job(job, root, pid, frozenset(prop.get("adopt", [])))
        finally:
            with sem_lock:
                used[0] -= need
                sem_lock.notify_all()

    with cf.ThreadPoolExecutor(max_workers=maxw) as ex:
        futs = [ex.submit(wrapped, j) for j in jobs_sorted]
        for f in cf.as_completed(futs):
            jr = f.result()
            results.append(jr)
            nf = len([x for x in jr.failed])
            say("  job %-34s %s  obligations=%d failed=%d  %.1fs (solver %.1fs, %d vars)%s" % (
                jr.job["name"], "ERROR" if jr.error else ("FAILED" if nf else "ok"), len(jr.results), nf, jr.secs,
                jr.solver_s, jr.vars, ("  reach-twin:%d fail as required" % jr.reach) if jr.reach else ""))
            if jr.error:
                say("     error: " + jr.error.split("\n")[0][:300])
    results.sort(key=lambda r: r.job["name"])
    known, fixed = load_known()
    violations = []     # (job, result, trace, vals)
    known_hits = []
    aux_fail = []
    other_fail = []
    errors = [r for r in results if r.error]
    for jr in results:
        for (r, kind, ids, tr, vals) in jr.failed:
            if kind == "aux":
                aux_fail.append((jr, r))
            elif pid in ids or (set(prop.get("adopt", [])) & ids):
                k = [k for k in known if k["prop"] == pid and k["job"] == jr.job["name"] and re.search(k["re"], r["desc"])]
                if k:
                    known_hits.append((k[0], jr, r))
                else:
                    violations.append((jr, r, tr, vals))
            else:
                other_fail.append((jr, r, ids))
    total = sum(len(jr.results) for jr in results)
    discharged = sum(1 for jr in results for r in jr.results if r["status"] == "SUCCESS")
    exit_code = 0
    lines = []
    replay_paths = []
    # native fallback when only scaffolding failed
    native_note = None
    if (aux_fail or errors or pre_err) and not violations and not pre_viol:
        camp = prop.get("campaign")
        if camp:
            try:
                r = camp(tier, seed, root)
                native_note = r.get("text")
                if r.get("violation"):
                    pre_viol.append(r)
            except ToolError as ex:
                native_note = "native campaign could not run: %s" % ex
    os.makedirs(os.path.join(VERIF, "replays", pid), exist_ok=True)
    seen_paths = {}
    for (jr, r, tr, vals) in sorted(violations, key=lambda v: 0 if v[2] else 1):
        nm = re.sub(r"[^A-Za-z0-9_.-]", "_", jr.job["name"] + "__" + r["name"])
        path = os.path.join(VERIF, "replays", pid, nm + ".json")
        if path in seen_paths:
            seen_paths[path] += 1
            continue
        seen_paths[path] = 1
        if len(seen_paths) > 12:
            continue
        rep = {"property": pid, "job": jr.job["name"], "obligation": r["name"], "description": r["desc"],
               "source_line": "%s:%d" % (r["file"], r["line"]), "checker_cmd": jr.cmd, "witness": vals,
               "verifier_output": (tr or "")[-20000:], "native": None}
        suffix = " no-failing-input-found"
        rp = jr.job.get("replay")
        if rp:
            try:
                nat = rp(jr.job, vals, seed, root)
                rep["native"] = nat
                if nat.get("reproduced"):
                    suffix = ""
            except ToolError as ex:
                rep["native"] = {"reproduced": False, "text": "native replay could not run: %s" % ex}
        json.dump(rep, open(path, "w"), indent=1)
        lines.append("VIOLATION property=%s replay=%s%s" % (pid, path, suffix))
        say("  failed obligation [%s] %s (%s:%d) in job %s" % (r["name"], r["desc"], os.path.basename(r["file"]), r["line"], jr.job["name"]))
        exit_code = 1
    for v in pre_viol:
        nm = re.sub(r"[^A-Za-z0-9_.-]", "_", v.get("name", "native"))
        path = os.path.join(VERIF, "replays", pid, nm + ".json")
        json.dump({"property": pid, "job": v.get("name", "native"), "obligation": v.get("obligation", "native differential check"),
                   "native": v, "verifier_output": v.get("text", "")}, open(path, "w"), indent=1)
        lines.append("VIOLATION property=%s replay=%s" % (pid, path))
        exit_code = 1
    for (k, jr, r) in known_hits:
        lines.append("KNOWN-FINDING: property=%s %s [job %s obligation '%s']" % (pid, k["text"], jr.job["name"], r["desc"]))
    if exit_code == 0 and (errors or pre_err or aux_fail):
        exit_code = 2
        for jr in errors:
            say("TOOL-ERROR job %s: %s" % (jr.job["name"], jr.error[:1500]))
        if pre_err:
            say("TOOL-ERROR " + pre_err)
        for (jr, r) in aux_fail[:10]:
            say("PROOF-BROKEN (scaffolding obligation failed, property undecided by this proof): job %s [%s] %s line %d"
                % (jr.job["name"], r["name"], r["desc"], r["line"]))
        if native_note:
            say("  native differential campaign: " + native_note)
    for (jr, r, ids) in other_fail[:10]:
        say("  note: obligation of other properties %s failed in job %s: %s" % (sorted(ids), jr.job["name"], r["desc"]))
    for l in lines:
        say(l)
    wall = time.time() - t0
    if exit_code != 2 and not os.environ.get("TJV_ONLY") and not os.environ.get("TJV_NO_EVIDENCE"):      # a debugging subset must not overwrite the evidence of a full run
        write_evidence(pid, tier, seed, prop, results, total, discharged, wall, len(violations) + len(pre_viol),
                       known_hits, pre_msgs, other_fail)
    say("%s %s: %s  (%d obligations, %d discharged, %d jobs, %.1fs)" % (
        pid, tier, {0: "HELD", 1: "VIOLATED", 2: "UNDECIDED (tool error)"}[exit_code], total, discharged, len(results), wall))
    return exit_code


def write_evidence(pid, tier, seed, prop, results, total, discharged, wall, nviol, known_hits, pre_msgs, other_fail):
    samples = []
    for jr in results:
        props = [r for r in jr.results if classify(jr.job, r["desc"], r["name"])[0] == "prop" and not SAFETY.search(r["desc"])]
        seen = set()
        for r in props:
            if r["desc"] in seen:
                continue
            seen.add(r["desc"])
            if len(seen) > 4:
                break
            samples.append({"job": jr.job["name"], "obligation": r["name"], "text": r["desc"],
                            "at": "%s:%d" % (os.path.basename(r["file"]), r["line"]), "status": r["status"]})
    jobs = []
    bounded = []
    assumptions = list(prop.get("assumptions", []))
    trusted = list(prop.get("trusted", []))
    for jr in results:
        j = jr.job
        jobs.append({"job": j["name"], "functions_under_contract": j.get("functions", []), "real_sources": [f for f in j["files"] if f.startswith("repo:")],
                     "contract_stubs": [f for f in j["files"] if f.startswith("stubs/")],
                     "loop_contracts": jr.facts.get("loops", []), "macro_loops_unwound_once": jr.facts.get("macro_loops", 0),
                     "obligations": len(jr.results), "discharged": sum(1 for r in jr.results if r["status"] == "SUCCESS"),
                     "backend": "cbmc 6.11 SAT: " + ("kissat 4.0.1 (external)" if str(j.get("solver", "")).startswith("kissat") else "minisat 2.2.1 (built in)"),
                     "solver_s": round(jr.solver_s, 2), "wall_s": round(jr.secs, 1), "variables": jr.vars, "clauses": jr.clauses,
                     "unbounded_in": j.get("unbounded", ""), "bounded": j.get("bounded", ""),
                     "reachability_assertions_failing_as_required": jr.reach, "unwind": j.get("unwind", 1)})
        if j.get("bounded"):
            bounded.append("%s: %s" % (j["name"], j["bounded"]))
        for a in j.get("assumes", []):
            if a not in assumptions:
                assumptions.append(a)
    level = prop["level"]
    cov = {
        "obligations": total, "discharged": discharged,
        "checker_cmd": results[0].cmd if results else "",
        "trusted_base": trusted,
        "samples": samples[:24],
        "jobs": jobs,
        "bounded_parts": bounded,
        "exhaustive": bool(prop.get("exhaustive", False)) and not bounded and tier == "thorough",
        "native_support": pre_msgs,
        "explanation": prop.get("explanation", ""),
        "known_findings_hit": ["%s: %s" % (k["prop"], k["text"]) for (k, _, _) in known_hits],
        "obligations_of_other_properties_failed": ["%s: %s" % (jr.job["name"], r["desc"]) for (jr, r, ids) in other_fail],
    }
    ev = {"property_id": pid, "tier": tier, "seed": seed, "level": level, "coverage": cov, "assumptions": assumptions,
          "wall_s": round(wall, 1), "violations": nviol}
    os.makedirs(os.path.join(VERIF, "evidence"), exist_ok=True)
    json.dump(ev, open(os.path.join(VERIF, "evidence", pid + ".json"), "w"), indent=1)
    if tier == "thorough":      # kept next to the per-run file, which the next quick run overwrites
        os.makedirs(os.path.join(VERIF, "evidence", "thorough"), exist_ok=True)
        json.dump(ev, open(os.path.join(VERIF, "evidence", "thorough", pid + ".json"), "w"), indent=1)


def replay_file(path, PROPS, JOBS):
    rep = json.load(open(path))
    job = JOBS.get(rep.get("job"))
    print("replay of %s: job %s obligation %s (%s)" % (rep.get("property"), rep.get("job"), rep.get("obligation"), rep.get("description", "")))
    if job and job.get("replay"):
        root = "/var/tmp/tjv.%d" % os.getpid()
        os.makedirs(root, exist_ok=True)
        try:
            nat = job["replay"](job, rep.get("witness", {}), 1, root)
            print(json.dumps(nat, indent=1))
            return 1 if nat.get("reproduced") else 0
        finally:
            shutil.rmtree(root, ignore_errors=True)
    nat = rep.get("native") or {}
    if nat.get("cmd"):
        print("native command recorded: " + nat["cmd"])
    print((rep.get("verifier_output") or "")[-3000:])
    return 0
