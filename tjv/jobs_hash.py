"""L1 for TinyJAMBU-Hash: real tinyjambu-hash.c against the MDPH spec monitor (C10, C11, C06)."""
from .jobs_clean import CLEAN_LOOP, CLEAN_SRC
FN = "tinyjambu_hash_update"
HASH = "repo:src/tinyjambu-hash.c"
UPD_LOOP = {
    "fn": FN, "idx": 0, "line": r"inlen >= 16",
    "assigns": "in, inlen, __CPROVER_object_whole(state), G.L, G.Rinv, G.P, G.out1, G.n, G.half, G.pos",
    "inv": ("pstate->posn == 0 && G.n == 0 && G.half == 0 && G.pos <= G.inlen && in == G.in + G.pos && inlen == G.inlen - G.pos && "
            + " && ".join("pstate->state.s[%d] == G.L[%d]" % (i, i) for i in range(4)) + " && "
            + " && ".join("pstate->state.k[%d] == G.Rinv[%d]" % (i, i) for i in range(4))),
    "dec": "inlen",
    "map": {"in": FN + "::in", "inlen": FN + "::inlen", "state": FN + "::state", "pstate": FN + "::1::pstate", "G": "G"},
}
TAGS = [(r"^hash:", ["C10", "C11"])]
COMMON = {"tags": TAGS, "props": ["C10", "C11", "C06"], "default_props": ["C10", "C11"], "mem_gb": 12}
JOBS = [
    dict(COMMON, name="hash.update.u", files=["harness/h_hash.c", "stubs/hmon.c", "stubs/mem.c", HASH], defs=["WHICH=0"],
         functions=[FN, "tinyjambu_hash_compress (static, inlined)"], loops=[UPD_LOOP], stub_unwind=18, unwind=18, timeout=1800, cost=300, solver="kissat-unsat",
         allow_no_body=["tinyjambu_clean"], reach_must=["TJV_REACH after", "hash permutation stub reached"],
         unbounded="inlen <= 2^40 (loop contract), arbitrary valid prior state (any posn < 16, any L, R, buffered bytes), all data"),
    dict(COMMON, name="hash.oneshot.u", files=["harness/h_hash.c", "stubs/hmon.c", "stubs/mem.c", HASH, CLEAN_SRC], defs=["WHICH=4", "TJV_GHOST_C"],
         functions=["tinyjambu_hash", "tinyjambu_hash_init", FN, "tinyjambu_hash_finalize", "tinyjambu_hash_free", "tinyjambu_clean"],
         loops=[UPD_LOOP, CLEAN_LOOP], stub_unwind=18, unwind=18, timeout=1800, cost=300,
         reach_must=["TJV_REACH after", "hash permutation stub reached"],
         unbounded="inlen <= 2^40 (loop contract), all data"),
    dict(COMMON, name="hash.finalize", files=["harness/h_hash.c", "stubs/hmon.c", "stubs/mem.c", HASH], defs=["WHICH=1"],
         functions=["tinyjambu_hash_finalize"], unwind=18, cost=10, allow_no_body=["tinyjambu_clean"],
         unbounded="arbitrary valid prior state (any posn < 16), loop-free after unwinding the 16-byte padding"),
    dict(COMMON, name="hash.init", files=["harness/h_hash.c", "stubs/hmon.c", "stubs/mem.c", HASH], defs=["WHICH=2"],
         functions=["tinyjambu_hash_init"], unwind=18, cost=2, allow_no_body=["tinyjambu_clean"], mem_share=0.1,
         unbounded="arbitrary prior contents of the state object (any history: mid-message, finalized, freed)"),
    dict(COMMON, name="hash.reinit", files=["harness/h_hash.c", "stubs/hmon.c", "stubs/mem.c", HASH], defs=["WHICH=3"],
         functions=["tinyjambu_hash_reinit"], unwind=18, cost=2, allow_no_body=["tinyjambu_clean"], mem_share=0.1,
         unbounded="arbitrary prior contents of the state object"),
    dict(COMMON, name="hash.update.grid", files=["harness/h_hash.c", "stubs/hmon.c", "stubs/mem.c", HASH], defs=["WHICH=0", "TJV_ALIGN"],
         functions=[FN], allow_no_body=["tinyjambu_clean"],
         grid=[{"label": "p%d_n%d" % (p, n), "defs": ["TJV_POSN=%d" % p, "TJV_LEN=%d" % n]}
               for p in (0, 1, 5, 15) for n in (0, 1, 10, 11, 12, 15, 16, 17, 27, 33, 48)]
              + [{"label": "p%d_n%d" % (p, n), "defs": ["TJV_POSN=%d" % p, "TJV_LEN=%d" % n]} for (p, n) in ((0, 64), (9, 100), (15, 130))]
              + [{"label": "p%d_null" % p, "defs": ["TJV_POSN=%d" % p, "TJV_LEN=0", "TJV_NULLIN"]} for p in (0, 7)],
         unwind=140, cost=60, mem_share=0.3, timeout=120,
         bounded="posn in {0,1,5,15} x inlen in {0,1,10,11,12,15,16,17,27,33,48}, input at every alignment 0..3, arbitrary L, R, buffered bytes and data (loops unwound)"),
    dict(COMMON, name="hash.oneshot.grid", files=["harness/h_hash.c", "stubs/hmon.c", "stubs/mem.c", HASH, CLEAN_SRC], defs=["WHICH=4", "TJV_ALIGN"],
         functions=["tinyjambu_hash"],
         grid=[{"label": "n%d" % n, "defs": ["TJV_LEN=%d" % n]} for n in (0, 1, 5, 15, 16, 17, 31, 32, 33, 50)],
         unwind=60, cost=30, mem_share=0.3, timeout=200,
         bounded="inlen in {0,1,5,15,16,17,31,32,33,50}, every alignment 0..3, all data (loops unwound)"),
    dict(COMMON, name="hash.oneshot.seq", files=["harness/h_hash_seq.c", "repo:src/tinyjambu-hash.c"], defs=["TJV_SEQ"],
         remove_bodies=["tinyjambu_hash_init", "tinyjambu_hash_reinit", "tinyjambu_hash_update", "tinyjambu_hash_finalize", "tinyjambu_hash_free"],
         functions=["tinyjambu_hash"], unwind=34, cost=2, mem_share=0.1,
         unbounded="all inlen, all inputs (loop-free: callee contract stubs)"),
]
