/* Transition functions of the TinyJAMBU mode specification, at the granularity of one permutation call.
   Written from the TinyJAMBU v2 specification (sections 3.2-3.4) and, for SIV, from the construction documented
   in the repository's README / tools/sivref/README.md.  The permutation itself is a parameter: the post-state p[4] is
   supplied by the caller (nondeterministic in CBMC, the bit-serial NLFSR natively).

     key setup        : state = 0; P_long
     nonce word i     : s[1] ^= dom(0x10 | 0x90 | 0xB0); P_640;  s[3] ^= nonce[4i..4i+3]            (i = 0,1,2)
     stream block     : s[1] ^= dom;  P_r;  then by mode, with n = min(4, remaining) bytes w = LE(in[pos..pos+n)):
          ABS  (AD 0x30/P_640, SIV-MAC message 0x50/P_long):   s[3] ^= w;            if n<4: s[1] ^= n
          ENC  (0x50/P_long):   s[3] ^= w;   out = (w ^ s[2]) mod 2^(8n);           if n<4: s[1] ^= n
          DEC  (0x50/P_long):   out = (w ^ s[2]) mod 2^(8n);   s[3] ^= out;         if n<4: s[1] ^= n
          KS   (SIV 0xD0/P_long): out = (w ^ s[2]) mod 2^(8n);   nothing absorbed, no length injection
     tag              : s[1] ^= 0x70; P_long; T[0..3] = s[2];   s[1] ^= 0x70; P_640; T[4..7] = s[2]

   The same file is compiled (a) into the CBMC contract stub of the permutation (stubs/mon.c) and (b) into the native
   reference model (native/ref.c), where it must reproduce every vector of /repo/test/kat. */
#ifndef TJV_TICK_H
#define TJV_TICK_H
#include <stddef.h>
#include <stdint.h>

enum { MD_ABS = 1, MD_ENC = 2, MD_DEC = 3, MD_KS = 4 };

/* little-endian load of n <= 4 bytes (n >= 1) */
static inline uint32_t tjv_ld(const uint8_t *p, size_t n)
{
  uint32_t w = p[0];
  if (n > 1) w |= (uint32_t)p[1] << 8;
  if (n > 2) w |= (uint32_t)p[2] << 16;
  if (n > 3) w |= (uint32_t)p[3] << 24;
  return w;
}

struct tjv_out { size_t gidx; uint8_t gout; int gout_set; };   /* one arbitrary output byte (ghost index) */

/* expected input of a permutation call: cur with the frame bits XORed into word 1 */
static inline void tjv_expect(uint32_t e[4], const uint32_t cur[4], uint8_t dom)
{
  e[0] = cur[0]; e[1] = cur[1] ^ dom; e[2] = cur[2]; e[3] = cur[3];
}

/* after the permutation of a stream block returned p: absorb / produce output; returns bytes consumed */
static inline size_t tjv_stream_post(uint32_t cur[4], const uint32_t p[4], int mode, const uint8_t *in, size_t len,
                                     size_t pos, struct tjv_out *o)
{
  size_t n = len - pos;
  if (n > 4) n = 4;
  uint32_t mask = (n == 4) ? 0xFFFFFFFFu : ((1u << (8 * n)) - 1u);
#ifdef TJV_EXP_NOREAD
  uint32_t w = nondet_u32();
#else
  uint32_t w = tjv_ld(in + pos, n);
#endif
  uint32_t ow = (w ^ p[2]) & mask;
  cur[0] = p[0]; cur[1] = p[1]; cur[2] = p[2]; cur[3] = p[3];
  if (mode == MD_ABS || mode == MD_ENC) cur[3] ^= w;
  else if (mode == MD_DEC) cur[3] ^= ow;
  if (mode != MD_KS && n < 4) cur[1] ^= (uint32_t)n;
  if (mode != MD_ABS && o && o->gidx >= pos && o->gidx < pos + n) {
    o->gout = (uint8_t)(ow >> (8 * (o->gidx - pos)));
    o->gout_set = 1;
  }
  return n;
}
#endif
