/* RFC-level reference constructions over an abstract one-shot hash tjv_H(out[32], msg, len):
   RFC 2104 HMAC (block 64), RFC 5869 HKDF block, RFC 8018 PBKDF2 F, SP 800-90A Hash_df (counter 1, 256 bits).
   In CBMC tjv_H is the arbitrary function of stubs/hash_abs.c; natively it is the MDPH reference. */
#ifndef TJV_RFC_H
#define TJV_RFC_H
#include <stdint.h>
void tjv_H(uint8_t out[32], const uint8_t *msg, unsigned len);
#ifndef RFC_MAXMSG
#define RFC_MAXMSG 128
#endif
static void rfc2104(uint8_t out[32], const uint8_t *key, unsigned keylen, const uint8_t *msg, unsigned msglen)
{
  uint8_t K0[64], buf[64 + RFC_MAXMSG], inner[32];
  for (int i = 0; i < 64; i++) K0[i] = 0;
  if (keylen > 64) tjv_H(K0, key, keylen); else for (unsigned i = 0; i < keylen; i++) K0[i] = key[i];
  for (int i = 0; i < 64; i++) buf[i] = K0[i] ^ 0x36;
  for (unsigned i = 0; i < msglen; i++) buf[64 + i] = msg[i];
  tjv_H(inner, buf, 64 + msglen);
  for (int i = 0; i < 64; i++) buf[i] = K0[i] ^ 0x5c;
  for (int i = 0; i < 32; i++) buf[64 + i] = inner[i];
  tjv_H(out, buf, 96);
}
/* T(n) = HMAC(PRK, T(n-1) || info || n), no T(0) for n = 1 */
static void rfc5869_block(uint8_t T[32], const uint8_t prk[32], const uint8_t Tprev[32], const uint8_t *info, unsigned infolen, unsigned n)
{
  uint8_t m[32 + RFC_MAXMSG]; unsigned l = 0;
  if (n != 1) { for (int i = 0; i < 32; i++) m[l++] = Tprev[i]; }
  for (unsigned i = 0; i < infolen; i++) m[l++] = info[i];
  m[l++] = (uint8_t)n;
  rfc2104(T, prk, 32, m, l);
}
/* Hash_df(input) with counter = 1 and 256 returned bits: H(0x01 || 0x00000100 || input) */
static void sp80090a_hash_df(uint8_t out[32], const uint8_t *input, unsigned len)
{
  uint8_t m[5 + RFC_MAXMSG];
  m[0] = 1; m[1] = 0; m[2] = 0; m[3] = 1; m[4] = 0;
  for (unsigned i = 0; i < len; i++) m[5 + i] = input[i];
  tjv_H(out, m, 5 + len);
}
#endif
