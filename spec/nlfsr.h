/* TinyJAMBU keyed NLFSR, bit-serial, written from the TinyJAMBU v2 specification (section 3.1):
     state bits s_0..s_127 (s_0 = bit 0 of word 0),
     feedback = s_0 ^ s_47 ^ ~(s_70 & s_85) ^ s_91 ^ k_{i mod klen},
     s_j <- s_{j+1} (j = 0..126), s_127 <- feedback,      i = 0 .. nsteps-1.
   One state bit per step on a 128-bit vector: NOT a copy of the library's 32-steps-at-a-time macro.
   Used (a) by CBMC as the specification side of the L0 equivalence (C05) and (b) natively as the
   permutation of the reference model in native/ (KAT validation, replay of counterexamples). */
#ifndef TJV_NLFSR_H
#define TJV_NLFSR_H
#include <stdint.h>
typedef unsigned __int128 tjv_u128;
static inline void tjv_nlfsr(uint32_t s[4], const uint8_t *key, unsigned klenbits, unsigned nsteps)
{
  tjv_u128 x = ((tjv_u128)s[3] << 96) | ((tjv_u128)s[2] << 64) | ((tjv_u128)s[1] << 32) | s[0];
  for (unsigned i = 0; i < nsteps; i++) {
    unsigned ki = i % klenbits;
    tjv_u128 kb = (key[ki >> 3] >> (ki & 7)) & 1u;
    tjv_u128 fb = (x ^ (x >> 47) ^ ~((x >> 70) & (x >> 85)) ^ (x >> 91) ^ kb) & 1u;
    x = (x >> 1) | (fb << 127);
  }
  s[0] = (uint32_t)x; s[1] = (uint32_t)(x >> 32); s[2] = (uint32_t)(x >> 64); s[3] = (uint32_t)(x >> 96);
}
#endif
