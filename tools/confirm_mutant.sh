#!/bin/bash
# usage: confirm_mutant.sh <mutant-dir with patch.diff, run_demo.sh> -> prints CONFIRMED / REJECTED and details
# Confirms in a scratch worktree (outside /repo and /verif): pristine: demo exit 0; mutant: builds, 22/22 ctest pass, demo exit != 0.
set -u
M=$(readlink -f "$1"); W=/tmp/tjv-confirm.$$
cleanup(){ git -C /repo worktree remove --force $W >/dev/null 2>&1; rm -rf $W; }
trap cleanup EXIT
git -C /repo worktree add --detach $W HEAD >/dev/null 2>&1 || { echo "cannot create worktree"; exit 2; }
cd $W
( bash $M/run_demo.sh $W ) >/tmp/tjv-confirm.$$.p 2>&1; P=$?
git apply $M/patch.diff || { echo "REJECTED: patch does not apply"; exit 1; }
( cmake -G Ninja -B _build >/dev/null 2>&1 && cmake --build _build 2>&1 | tail -2 ) > /tmp/tjv-confirm.$$.b 2>&1
T=$(ctest --test-dir _build -j8 2>&1 | grep -E "tests passed|tests failed" )
( bash $M/run_demo.sh $W ) >/tmp/tjv-confirm.$$.m 2>&1; D=$?
echo "pristine demo exit=$P ; mutant: ctest='$T' demo exit=$D"
tail -3 /tmp/tjv-confirm.$$.m | cut -c1-200
rm -f /tmp/tjv-confirm.$$.*
if [ $P -eq 0 ] && [ $D -ne 0 ] && echo "$T" | grep -q "100% tests passed"; then echo CONFIRMED; exit 0; else echo REJECTED; exit 1; fi
