#!/usr/bin/env python3
"""Regenerates the seeded-changes table in DESIGN.md (between the SEEDED-TABLE markers) from seeded/*/meta.json."""
import json, os, re
V = "/verif"
rows = []
n = det = 0
for mid in sorted(os.listdir(os.path.join(V, "seeded"))):
    mp = os.path.join(V, "seeded", mid, "meta.json")
    if not os.path.exists(mp):
        continue
    m = json.load(open(mp))
    d = m.get("detected_by") or {}
    n += 1
    det += 1 if d.get("verdict") == "detected" else 0
    jobs = ", ".join(d.get("jobs", [])[:3]) or ("static facts / native pre-check" if d.get("exit") == 1 else "")
    rows.append("| %s | %s | `%s` | %s | %s | %s |" % (mid, m["needs_to_manifest"][:170].replace("|", "/"), d.get("check", "?").replace("./check ", ""),
                d.get("verdict", "?"), jobs, ((d.get("obligations") or [""])[0][:80]).replace("|", "/")))
tab = ("| change | what it needs to manifest | check | outcome | deciding job(s) | first failed obligation |\n|---|---|---|---|---|---|\n" + "\n".join(rows)
       + "\n\n%d changes, %d reported as VIOLATION by the check of the property they break.\n" % (n, det))
p = os.path.join(V, "DESIGN.md")
s = open(p).read()
s = re.sub(r"<!-- SEEDED-TABLE-BEGIN -->.*<!-- SEEDED-TABLE-END -->", "<!-- SEEDED-TABLE-BEGIN -->\n" + tab + "<!-- SEEDED-TABLE-END -->", s, flags=re.S)
open(p, "w").write(s)
print("%d changes, %d detected" % (n, det))
