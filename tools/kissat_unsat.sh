#!/bin/bash
# kissat preset for instances expected to be unsatisfiable (all obligations hold)
exec kissat --unsat "$@"
