#!/bin/bash
# usage: with_mutant.sh <seeded-id> <command...> : apply /verif/seeded/<id>/patch.diff to /repo, run command, undo.
id=$1; shift
cd /repo || exit 2
git diff --quiet || { echo "/repo has uncommitted changes"; exit 2; }
git apply /verif/seeded/$id/patch.diff || { echo "patch does not apply"; exit 2; }
( cd /verif && "$@" ); rc=$?
git -C /repo checkout -- . ; git -C /repo clean -fdq src 2>/dev/null
exit $rc
