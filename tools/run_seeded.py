#!/usr/bin/env python3
"""Run every seeded mutant (or the ones named on the command line) against the quick check of the property it breaks;
record the outcome in seeded/<id>/meta.json (detected_by) and print a table.  /repo is patched and restored for each."""
import json, os, re, subprocess, sys, time
V = "/verif"
ids = sys.argv[1:] or sorted(os.listdir(os.path.join(V, "seeded")))
rows = []
for mid in ids:
    d = os.path.join(V, "seeded", mid)
    if not os.path.exists(os.path.join(d, "patch.diff")):
        continue
    meta = json.load(open(os.path.join(d, "meta.json")))
    prop = meta["breaks_property"]
    tier = meta.get("check_tier", "quick")
    assert subprocess.run(["git", "-C", "/repo", "diff", "--quiet"]).returncode == 0, "/repo dirty"
    if subprocess.run(["git", "-C", "/repo", "apply", os.path.join(d, "patch.diff")]).returncode != 0:
        rows.append((mid, prop, "patch does not apply", "", 0)); continue
    t0 = time.time()
    try:
        r = subprocess.run(["./check", prop, tier], cwd=V, capture_output=True, text=True, timeout=1500 if tier == "quick" else 5400,
                           env=dict(os.environ, TJV_NO_EVIDENCE="1"))     # runs on a deliberately broken tree must not replace the evidence of the real tree
        out, rc = r.stdout, r.returncode
    except subprocess.TimeoutExpired:
        out, rc = "", 124
    finally:
        subprocess.run(["git", "-C", "/repo", "checkout", "--", "."])
        subprocess.run(["git", "-C", "/repo", "clean", "-fdq", "src"])
    viol = [l for l in out.split("\n") if l.startswith("VIOLATION")]
    failed = sorted(set(re.findall(r"failed obligation \[[^\]]*\] (.*?) \(", out)))
    jobs = sorted(set(re.findall(r"replays/C\d+/([A-Za-z0-9_.-]+?)__", "\n".join(viol)))) + (["native fallback campaign"] if any("native." in v for v in viol) else [])
    nofail = all(v.endswith("no-failing-input-found") for v in viol) if viol else False
    verdict = {0: "MISSED (check passed)", 1: "detected", 2: "undecided (exit 2)", 124: "timeout"}.get(rc, "rc %d" % rc)
    meta["detected_by"] = {"check": "./check %s %s" % (prop, tier), "exit": rc, "verdict": verdict, "jobs": jobs[:8], "obligations": failed[:6],
                           "native_replay_reproduced": (not nofail) if viol else None, "wall_s": round(time.time() - t0, 1)}
    json.dump(meta, open(os.path.join(d, "meta.json"), "w"), indent=1)
    rows.append((mid, prop, verdict, ", ".join(jobs[:3]), round(time.time() - t0)))
    print("%-7s %-4s %-22s %-60s %4ss" % rows[-1], flush=True)
