#!/usr/bin/env python3
"""import_mutant.py <prop> <letter> <srcdir> "<needs>"  -> /verif/seeded/<prop>-<letter>/ (after confirm_mutant.sh said CONFIRMED)"""
import sys, os, shutil, json, subprocess
prop, letter, src, needs = sys.argv[1:5]
skip = len(sys.argv) > 5 and sys.argv[5] == "--confirmed"
dst = "/verif/seeded/%s-%s" % (prop, letter)
os.makedirs(dst, exist_ok=True)
for f in os.listdir(src):
    if os.path.isfile(os.path.join(src, f)) and os.path.getsize(os.path.join(src, f)) < 200000:
        shutil.copy(os.path.join(src, f), dst)
if skip:
    class R: stdout = "confirmed immediately before import with tools/confirm_mutant.sh on the delivered directory\nCONFIRMED"
    r = R()
else:
    r = subprocess.run(["/verif/tools/confirm_mutant.sh", dst], capture_output=True, text=True)
ok = "CONFIRMED" in r.stdout
meta = {"breaks_property": prop, "origin": "independent sub-agent given only the property text and a scratch worktree",
        "needs_to_manifest": needs,
        "confirmed_by": "tools/confirm_mutant.sh: scratch worktree of /repo HEAD under /tmp; pristine: run_demo.sh exit 0; with patch.diff applied: cmake+ninja build ok, ctest 22/22 pass, run_demo.sh exit != 0",
        "confirm_output": r.stdout.strip().split("\n")[-5:], "confirmed": ok, "detected_by": []}
json.dump(meta, open(os.path.join(dst, "meta.json"), "w"), indent=1)
print(dst, "CONFIRMED" if ok else "REJECTED")
