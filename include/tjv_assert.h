/* Assertion / permutation-result back ends for code shared between CBMC stubs and the native reference model. */
#ifndef TJV_ASSERT_H
#define TJV_ASSERT_H
#include <stdint.h>
#ifdef TJV_NATIVE
#include "nlfsr.h"
void tjv_native_fail(const char *msg);
#define TJV_ASSERT(c, msg) do { if (!(c)) tjv_native_fail(msg); } while (0)
#define TJV_REACHED(msg) ((void)0)
#ifndef NNN
#error NNN
#endif
static inline void tjv_perm_result(uint32_t p[4], const uint32_t e[4], const uint32_t *kinv, unsigned rounds)
{
  uint8_t key[32];
  for (int i = 0; i < NNN / 32; i++) { uint32_t w = ~kinv[i]; key[4*i] = (uint8_t)w; key[4*i+1] = (uint8_t)(w >> 8); key[4*i+2] = (uint8_t)(w >> 16); key[4*i+3] = (uint8_t)(w >> 24); }
  p[0] = e[0]; p[1] = e[1]; p[2] = e[2]; p[3] = e[3];
  tjv_nlfsr(p, key, NNN, 128 * rounds);
}
static inline uint32_t nondet_u32(void) { return 0; }
#else
#include "tjv.h"
#define TJV_ASSERT(c, msg) __CPROVER_assert(c, msg)
#ifdef TJV_REACH
#define TJV_REACHED(msg) __CPROVER_assert(0, "TJV_REACH " msg)
#else
#define TJV_REACHED(msg) ((void)0)
#endif
/* arbitrary post-state: written in the caller's scope (a callee writing through a pointer to the caller's local
   would need that local in every enclosing loop's assigns clause) */
#define tjv_perm_result(p, e, kinv, rounds) \
  ((p)[0] = nondet_u32(), (p)[1] = nondet_u32(), (p)[2] = nondet_u32(), (p)[3] = nondet_u32(), (void)0)
#endif
#endif
