/* Common declarations for the verification harnesses (CBMC side). */
#ifndef TJV_H
#define TJV_H
#include <stddef.h>
#include <stdint.h>
#include <stdlib.h>

size_t nondet_size(void);
uint8_t nondet_u8(void);
uint32_t nondet_u32(void);
unsigned nondet_uint(void);
int nondet_int(void);
_Bool nondet_bool(void);

/* Reachability (vacuity) twin: compiled with -DTJV_REACH these assertions MUST FAIL. */
#ifdef TJV_REACH
#define TJV_REACH_HERE(what) __CPROVER_assert(0, "TJV_REACH " what)
#else
#define TJV_REACH_HERE(what) ((void)0)
#endif

/* Upper bound on symbolic lengths: keeps pointer offsets representable in CBMC's object/offset
   encoding; it is not an unwinding bound (loops are closed by loop contracts). */
#define TJV_MAXLEN ((size_t)1 << 40)

/* witness variables: show up in counterexample traces (prefix tjw_) */
#define TJW_BYTES(dst, ptr, len, n) do { for (unsigned _i = 0; _i < (n); _i++) if (_i < (len)) (dst)[_i] = (ptr)[_i]; } while (0)

#endif
