#!/bin/bash
# Offline setup: nothing to download or build ahead of time; checks compile everything from /repo on each run.
set -e
cd "$(dirname "$0")"
for t in cbmc goto-cc goto-instrument kissat gcc python3; do command -v $t >/dev/null || { echo "missing tool: $t"; exit 1; }; done
python3 -c "import tjv.registry" 
echo "setup ok"
