/* memcpy as a byte loop (constant upper bound 32/64 in the callers that use it); memset stays CBMC's built-in model
   (array_set), which handles the symbolic-length zero fill of hkdf_expand's refusal path. */
#include <stddef.h>
void *memcpy(void *d, const void *s, size_t n) { unsigned char *dd = d; const unsigned char *ss = s; for (size_t i = 0; i < n; i++) dd[i] = ss[i]; return d; }
