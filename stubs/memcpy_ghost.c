/* memcpy with a symbolic length into the (unbounded) output buffer, modelled at the harness's ghost index only (see
   memset_ghost.c for the soundness argument); source and destination ranges are asserted to be inside their objects. */
#include <stddef.h>
size_t tjv_g_rel_to(const unsigned char *base);
void *memcpy(void *d, const void *s, size_t n)
{
  unsigned char *dd = d; const unsigned char *ss = s;
  __CPROVER_assert(n == 0 || (__CPROVER_w_ok(dd, n) && __CPROVER_r_ok(ss, n)), "C06: memcpy stays inside the source and destination objects");
  size_t g = tjv_g_rel_to(dd);
  if (g < n) dd[g] = ss[g];
  return d;
}
