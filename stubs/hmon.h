/* Ghost automaton of the MDPH specification of TinyJAMBU-Hash (tools/hashref/README.md), in the contract stub of
   tinyjambu_permutation_256.  Abstract view of a hash state: (L, R, buf[0..n)), n < 16. */
#ifndef TJV_HMON_H
#define TJV_HMON_H
#include <stddef.h>
#include <stdint.h>
struct tjv_hmon {
  uint32_t L[4], Rinv[4];     /* L and ~R */
  uint32_t P[4], out1[4];     /* input and result of the first encryption of the current compression */
  uint8_t buf[16]; unsigned n;/* bytes buffered before this call's input */
  int half;                   /* 0: next call is E(K, L^dom); 1: next is E(K, L^dom^1) */
  int final_allowed, final_done;
  const uint8_t *in; size_t inlen, pos;   /* the input of the call under verification, consumed by the monitor's own cursor */
};
extern struct tjv_hmon G;
/* Same shape as the library's private tinyjambu_hash_state_p_t (src/tinyjambu-hash.c): declaring the object with this type
   (plus 4 bytes of tail so that it has exactly sizeof(tinyjambu_hash_state_t) = 56 bytes) keeps CBMC's accesses
   field-sensitive; an object declared as the opaque public type (unsigned long long[7]) is accessed through byte
   extraction, which defeats constant propagation of posn in the concrete-shape grid. */
#include "backend/tinyjambu-backend.h"
typedef struct { tinyjambu_256_state_t state; unsigned posn; } tjv_hash_p_t;
typedef struct { tjv_hash_p_t p; unsigned tail; } tjv_hash_obj_t;
typedef tjv_hash_p_t tjv_hash_view_t;
#endif
