/* Contract stubs of the operating-system entropy calls, driven by a ghost fault script (C18):
   each call nondeterministically (a) fails transiently with errno EINTR or EAGAIN while ghost fuel > 0 (fuel decreases:
   every FINITE fault sequence), (b) fails permanently with some other errno, or (c) succeeds and delivers the 32 ghost
   "OS bytes".  Assumed libc contracts: getrandom(buf, 32, 0) / syscall(SYS_getrandom, buf, 32, 0) return 32 or -1 with
   errno set (requests <= 256 bytes are all-or-error); getentropy(buf, 32) returns 0 or -1 with errno set. */
#include <errno.h>
#include <stddef.h>
#include <sys/types.h>
#include <sys/syscall.h>
unsigned tjv_fuel; int tjv_permanent; unsigned char tjv_os[32]; unsigned long tjv_calls;
_Bool nondet_bool(void); int nondet_int(void);
static long os_call(void *buf, size_t buflen, long okval)
{
  __CPROVER_assert(buflen == 32, "C18: the OS source is asked for exactly 32 bytes");
  tjv_calls++;
  if (tjv_fuel > 0 && nondet_bool()) { tjv_fuel--; errno = nondet_bool() ? EINTR : EAGAIN; return -1; }
  if (nondet_bool()) { int e = nondet_int(); __CPROVER_assume(e != EINTR && e != EAGAIN && e > 0); errno = e; tjv_permanent = 1; return -1; }
  for (int i = 0; i < 32; i++) ((unsigned char *)buf)[i] = tjv_os[i];
  return okval;
}
ssize_t getrandom(void *buf, size_t buflen, unsigned int flags)
{ __CPROVER_assert(flags == 0, "C18: getrandom is called blocking, from the urandom pool"); return os_call(buf, buflen, 32); }
int getentropy(void *buf, size_t buflen) { return (int)os_call(buf, buflen, 0); }
/* declared variadic in <unistd.h>; the one call site passes (SYS_getrandom, buf, size, 0) */
long syscall(long number, void *buf, size_t len, int flags)
{
  __CPROVER_assert(number == SYS_getrandom && flags == 0, "C18: raw syscall variant invokes SYS_getrandom, blocking");
  return os_call(buf, len, 32);
}
