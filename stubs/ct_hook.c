/* C07: branch-trace recorder.  goto-instrument --branch tjv_branch inserts a call tjv_branch("<function>.<n> taken/not-taken")
   at every conditional branch of every function.  The hook is branch-free itself; events of run 0 and run 1 go to separate
   traces, events of the harness itself (run 2) are ignored. */
#define TR 1024
const char *tjv_tr[3][TR]; unsigned tjv_tn[3]; int tjv_run = 2;
void tjv_branch(const char *id) { unsigned i = tjv_tn[tjv_run]; tjv_tr[tjv_run][i & (TR - 1)] = id; tjv_tn[tjv_run] = i + 1; }
