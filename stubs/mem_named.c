/* stubs/mem.c compiled under the names tjv_memcpy / tjv_memset (for the equivalence check against CBMC's built-in models) */
#define memcpy tjv_memcpy
#define memset tjv_memset
#include "mem.c"
