/* Assumed libc contract of explicit_bzero(s, n): bytes [s, s+n) become 0, nothing else changes (and the stores are not
   elided - that last part is below C semantics and not expressible here).  Modelled for the ghost index tjv_c only when
   the length is symbolic; a byte loop otherwise. */
#include <stddef.h>
extern size_t tjv_c;
extern void *tjv_bzero_ptr; extern size_t tjv_bzero_len; extern int tjv_bzero_calls;
void *tjv_bzero_ptr; size_t tjv_bzero_len; int tjv_bzero_calls;
void explicit_bzero(void *s, size_t n)
{
  tjv_bzero_ptr = s; tjv_bzero_len = n; tjv_bzero_calls++;
  if (tjv_c < n) ((unsigned char *)s)[tjv_c] = 0;
}
