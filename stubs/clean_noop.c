/* Contract stub of tinyjambu_clean for the leakage harnesses only: control flow of the real function depends on the public
   size alone (checked in clean.*); values are irrelevant for branch traces. */
void tinyjambu_clean(void *buf, unsigned size) { (void)buf; (void)size; }
