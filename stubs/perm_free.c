/* Contract stubs of the three permutations for the leakage harnesses: arbitrary output, no branches (the real C
   permutations are straight-line shift/xor/and code whose only branches test the public round counter; their branch
   behaviour is checked separately in ct.perm*). */
#include "backend/tinyjambu-backend.h"
unsigned nondet_u32(void);
void tinyjambu_permutation_128(tinyjambu_128_state_t *s, unsigned r) { (void)r; s->s[0] = nondet_u32(); s->s[1] = nondet_u32(); s->s[2] = nondet_u32(); s->s[3] = nondet_u32(); }
void tinyjambu_permutation_192(tinyjambu_192_state_t *s, unsigned r) { (void)r; s->s[0] = nondet_u32(); s->s[1] = nondet_u32(); s->s[2] = nondet_u32(); s->s[3] = nondet_u32(); }
void tinyjambu_permutation_256(tinyjambu_256_state_t *s, unsigned r) { (void)r; s->s[0] = nondet_u32(); s->s[1] = nondet_u32(); s->s[2] = nondet_u32(); s->s[3] = nondet_u32(); }
