/* Contract stubs of the TinyJAMBU-Hash API for the L2 proofs (HMAC, HKDF, PBKDF2, PRNG): DESIGN.md 3.4.
   Abstract view of a hash state = the byte string absorbed since init (ghost buffer, keyed by the ADDRESS of the state
   object); finalize returns H(view) where H is an ARBITRARY deterministic function of the byte string (memo table of
   (length, bytes) -> 32 nondeterministic bytes).  That the real functions satisfy this contract - digest =
   SpecHash(concatenation of all updates since init), any chunking, frames - is C10/C11 (proved at L1);
   SpecHash is one instance of H.  Lengths must be concrete at every call (the L2 value proofs are bounded in
   length, complete in values); the stubs assert that. */
#include "TinyJAMBU.h"
#include <stdint.h>
#include "tjv.h"
#ifndef TJV_CAP
#define TJV_CAP 192
#endif
#define NST 12
#ifndef NMEMO
#define NMEMO 24
#endif
typedef struct { unsigned len; int live; uint8_t msg[TJV_CAP]; } gview_t;
static gview_t GV[NST];
static const void *owner[NST];
static unsigned g_next = 1;
static struct { unsigned len; uint8_t msg[TJV_CAP]; uint8_t dig[32]; } memo[NMEMO];
static unsigned memo_n;
unsigned tjv_hash_calls;                 /* number of H evaluations (ghost) */

static unsigned slot_of(const void *st) { for (unsigned i = 1; i < NST; i++) if (owner[i] == st) return i; return 0; }

void tjv_H(uint8_t out[32], const uint8_t *msg, unsigned len)     /* the abstract hash function */
{
  _Bool found = 0;
  uint8_t res[32];
  for (int j = 0; j < 32; j++) res[j] = nondet_u8();
  for (unsigned i = 0; i < memo_n; i++) {
    if (memo[i].len == len) {
      _Bool eq = 1;
      for (unsigned j = 0; j < len; j++) eq = eq & (memo[i].msg[j] == msg[j]);
      for (int j = 0; j < 32; j++) res[j] = (eq && !found) ? memo[i].dig[j] : res[j];
      found = found | eq;
    }
  }
  __CPROVER_assert(memo_n < NMEMO, "tjv aux: memo table large enough");
  __CPROVER_assert(len <= TJV_CAP, "tjv aux: hashed string fits the ghost buffer");
  memo[memo_n].len = len;
  for (unsigned j = 0; j < len; j++) memo[memo_n].msg[j] = msg[j];
  for (int j = 0; j < 32; j++) { memo[memo_n].dig[j] = res[j]; out[j] = res[j]; }
  memo_n++; tjv_hash_calls++;
}
void tinyjambu_hash_init(tinyjambu_hash_state_t *st)
{
  unsigned h = slot_of(st);
  if (!h) {                                  /* first free slot (slots of freed states are reused) */
    for (unsigned i = 1; i < NST; i++) if (!h && owner[i] == 0) h = i;
    __CPROVER_assert(h != 0, "tjv aux: enough ghost views");
    if (!h) return;
    owner[h] = st;
  }
  GV[h].len = 0; GV[h].live = 1;
}
void tinyjambu_hash_reinit(tinyjambu_hash_state_t *st) { tinyjambu_hash_init(st); }
void tinyjambu_hash_update(tinyjambu_hash_state_t *st, const unsigned char *in, size_t inlen)
{
  unsigned h = slot_of(st);
  __CPROVER_assert(h >= 1 && h < NST && GV[h].live, "hash API: update on an initialised state");
  __CPROVER_assert(GV[h].len + inlen <= TJV_CAP, "tjv aux: absorbed string fits the ghost buffer (bounded lengths)");
  for (size_t i = 0; i < inlen; i++) GV[h].msg[GV[h].len + i] = in[i];
  GV[h].len += (unsigned)inlen;
}
void tinyjambu_hash_finalize(tinyjambu_hash_state_t *st, unsigned char *out)
{
  unsigned h = slot_of(st);
  __CPROVER_assert(h >= 1 && h < NST && GV[h].live, "hash API: finalize on an initialised state");
  tjv_H(out, GV[h].msg, GV[h].len);
  GV[h].live = 0;               /* the real finalize leaves posn = 0 and L,R = digest: not a fresh state; callers must re-init */
}
void tinyjambu_hash_free(tinyjambu_hash_state_t *st)
{
  if (st) { unsigned h = slot_of(st); if (h) { GV[h].live = 0; owner[h] = 0; } for (unsigned i = 0; i < sizeof(*st); i++) ((unsigned char *)st)[i] = 0; }
}
void tinyjambu_hash(unsigned char *out, const unsigned char *in, size_t inlen)
{
  __CPROVER_assert(inlen <= TJV_CAP, "tjv aux: hashed string fits the ghost buffer (bounded lengths)");
  tjv_H(out, in, (unsigned)inlen);
}
