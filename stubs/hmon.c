/* Contract stub of tinyjambu_permutation_256 = MDPH spec monitor (C10/C11).  Per compression two calls with the same key
      K = R || M   (key words 0..3 = ~R, key words 4..7 = ~LE(M), M = next 16 bytes by the monitor's own cursor:
                    buffered bytes first, then the call's input; or buf || 0x01 || 0.. for the final block)
      call 1: state = L ^ dom (dom = 0, or 2 for the final block), 20 rounds (2560 steps)      -> out1
      call 2: state = L ^ dom ^ 1, 20 rounds                                                   -> out2
      L' = out1 ^ (L ^ dom);   R' = out2 ^ (L ^ dom ^ 1)                                                       */
#include "hmon.h"
#include "backend/tinyjambu-backend.h"
#include "tjv_assert.h"
#undef NNN
struct tjv_hmon G;

static uint8_t blk(unsigned j, int final)
{
  if (j < G.n) return G.buf[j];
  if (final) { size_t rem = G.inlen - G.pos; if (j - G.n < rem) return G.in[G.pos + (j - G.n)]; return (j - G.n == rem) ? 0x01 : 0x00; }
  return G.in[G.pos + (j - G.n)];
}
void tinyjambu_permutation_256(tinyjambu_256_state_t *state, unsigned rounds)
{
  TJV_REACHED("hash permutation stub reached");
  TJV_ASSERT(rounds == 20, "hash: 2560 steps per encryption");
  TJV_ASSERT(state->k[0] == G.Rinv[0] && state->k[1] == G.Rinv[1] && state->k[2] == G.Rinv[2] && state->k[3] == G.Rinv[3],
             "hash: key words 0..3 are ~R");
  if (G.half == 0) {
    size_t avail = G.n + (G.inlen - G.pos);
    int final = avail < 16;
    TJV_ASSERT(!final || (G.final_allowed && !G.final_done), "hash: compress only when a full block is available (or once for the padded final block)");
    uint32_t dom = final ? 2u : 0u;
    _Bool kok = 1;
    for (unsigned w = 0; w < 4; w++) {
      uint32_t m = blk(4 * w, final) | ((uint32_t)blk(4 * w + 1, final) << 8) | ((uint32_t)blk(4 * w + 2, final) << 16) | ((uint32_t)blk(4 * w + 3, final) << 24);
      kok = kok & (state->k[4 + w] == ~m);
    }
    TJV_ASSERT(kok, "hash: key words 4..7 are the inverted next message block (10* padded for the final block)");
    TJV_ASSERT(state->s[0] == (G.L[0] ^ dom) && state->s[1] == G.L[1] && state->s[2] == G.L[2] && state->s[3] == G.L[3],
               "hash: first encryption input is L (xor 2 for the final block)");
    uint32_t o[4];
    tjv_perm_result(o, state->s, state->k, rounds);
    for (int i = 0; i < 4; i++) { G.P[i] = state->s[i]; G.out1[i] = o[i]; state->s[i] = o[i]; }
    G.half = 1;
    if (final) G.final_done = 1;
  } else {
    TJV_ASSERT(state->s[0] == (G.P[0] ^ 1) && state->s[1] == G.P[1] && state->s[2] == G.P[2] && state->s[3] == G.P[3],
               "hash: second encryption input is L ^ 1");
    uint32_t o[4];
    tjv_perm_result(o, state->s, state->k, rounds);
    for (int i = 0; i < 4; i++) {
      state->s[i] = o[i];
      G.L[i] = G.out1[i] ^ G.P[i];
      G.Rinv[i] = ~(o[i] ^ G.P[i] ^ (i == 0 ? 1u : 0u));
    }
    if (G.final_done) { G.pos = G.inlen; G.n = 0; }
    else { G.pos += 16 - G.n; G.n = 0; }
    G.half = 0;
  }
}
