/* Frame-only contract stubs of the HMAC API for the unbounded state-machine proofs of HKDF and PBKDF2 (values are
   arbitrary; what is observed is the call protocol).  Ghost counters record the protocol:
     tjv_hm_inits     number of tinyjambu_hmac_init calls (= PBKDF2 blocks started / HKDF blocks generated)
     tjv_hm_finals    number of finalize calls (= PRF evaluations)
     tjv_hm_upd       updates since the last init/reinit
     tjv_hm_last4     the last 4-byte update (PBKDF2 block number), tjv_hm_last1 the last 1-byte update (HKDF counter) */
#include "TinyJAMBU.h"
#include "tjv.h"
unsigned long tjv_hm_inits, tjv_hm_finals, tjv_hm_reinits;
unsigned tjv_hm_upd, tjv_hm_open;
unsigned long tjv_hm_finals_at_init;
uint8_t tjv_hm_last4[4], tjv_hm_last1; int tjv_hm_have4, tjv_hm_have1;
void tinyjambu_hmac_init(tinyjambu_hmac_state_t *state, const unsigned char *key, size_t keylen)
{ (void)state; (void)key; (void)keylen; tjv_hm_inits++; tjv_hm_upd = 0; tjv_hm_open = 1; tjv_hm_finals_at_init = tjv_hm_finals; }
void tinyjambu_hmac_reinit(tinyjambu_hmac_state_t *state, const unsigned char *key, size_t keylen)
{ (void)state; (void)key; (void)keylen; tjv_hm_reinits++; tjv_hm_upd = 0; tjv_hm_open = 1; }
void tinyjambu_hmac_update(tinyjambu_hmac_state_t *state, const unsigned char *in, size_t inlen)
{
  (void)state;
  __CPROVER_assert(tjv_hm_open, "HMAC API: update on an initialised state");
  tjv_hm_upd++;
#ifdef TJV_PBKDF2
  /* PBKDF2: the second update after init is the block number; it must be INT32BE(index of this block) */
  if (tjv_hm_upd == 2 && tjv_hm_finals_at_init == tjv_hm_finals) {
    unsigned long i = tjv_hm_inits;
    __CPROVER_assert(inlen == 4 && in[0] == (uint8_t)(i >> 24) && in[1] == (uint8_t)(i >> 16) && in[2] == (uint8_t)(i >> 8) && in[3] == (uint8_t)i,
                     "C14: block i is derived from salt || INT32BE(i), i counted from 1");
    tjv_hm_last4[0] = in[0]; tjv_hm_last4[1] = in[1]; tjv_hm_last4[2] = in[2]; tjv_hm_last4[3] = in[3]; tjv_hm_have4 = 1;
  }
#endif
  if (inlen == 1) { tjv_hm_last1 = in[0]; tjv_hm_have1 = 1; }
}
void tinyjambu_hmac_finalize(tinyjambu_hmac_state_t *state, const unsigned char *key, size_t keylen, unsigned char *out)
{
  (void)state; (void)key; (void)keylen;
  __CPROVER_assert(tjv_hm_open, "HMAC API: finalize on an initialised state");
#ifdef TJV_GHOST_OUT
  /* the digest may land directly in the caller's unbounded output buffer: modelled at the ghost index only */
  { extern size_t tjv_g_rel_to(const unsigned char *base); size_t g = tjv_g_rel_to(out);
    __CPROVER_assert(__CPROVER_w_ok(out, 32), "C06: PRF output buffer has room for 32 bytes");
    if (g < 32) out[g] = nondet_u8(); }
#else
  for (int i = 0; i < 32; i++) out[i] = nondet_u8();
#endif
  tjv_hm_finals++; tjv_hm_open = 0;
#ifdef TJV_PBKDF2
  { extern unsigned long tjv_count; unsigned long per = tjv_count ? tjv_count : 1;
    __CPROVER_assert(tjv_hm_finals - tjv_hm_finals_at_init <= per, "C14: at most max(count,1) PRF evaluations per block"); }
#endif
}
void tinyjambu_hmac_free(tinyjambu_hmac_state_t *state) { static const tinyjambu_hmac_state_t zero; if (state) *state = zero; tjv_hm_open = 0; }
