/* Frame-only contract stubs of the HMAC API for the unbounded state-machine proofs of HKDF and PBKDF2 (values are
   arbitrary; what is observed is the call protocol).  Ghost counters record the protocol:
     tjv_hm_inits     number of tinyjambu_hmac_init calls (= PBKDF2 blocks started / HKDF blocks generated)
     tjv_hm_finals    number of finalize calls (= PRF evaluations)
     tjv_hm_upd       updates since the last init/reinit
     tjv_hm_last4     the last 4-byte update (PBKDF2 block number), tjv_hm_last1 the last 1-byte update (HKDF counter) */
#include "TinyJAMBU.h"
#include "tjv.h"
unsigned long tjv_hm_inits, tjv_hm_finals, tjv_hm_reinits;
unsigned tjv_hm_upd, tjv_hm_open;
unsigned long tjv_hm_finals_at_init;
#ifdef TJV_PBKDF2
const unsigned char *tjv_pw, *tjv_salt; size_t tjv_pwlen, tjv_saltlen; const unsigned char *tjv_hm_last_out;
unsigned char tjv_acc, tjv_acc_prev; size_t tjv_gg;     /* ghost: XOR of the PRF chain at byte tjv_gg of the current block */
#endif
#ifdef TJV_HKDF
const unsigned char *tjv_hkdf_prk, *tjv_hkdf_T, *tjv_hkdf_info; const unsigned char *tjv_hkdf_counter; size_t tjv_hkdf_infolen; unsigned char tjv_hkdf_n;
#endif
uint8_t tjv_hm_last4[4], tjv_hm_last1; int tjv_hm_have4, tjv_hm_have1;
void tinyjambu_hmac_init(tinyjambu_hmac_state_t *state, const unsigned char *key, size_t keylen)
{
  (void)state; (void)key; (void)keylen; tjv_hm_inits++; tjv_hm_upd = 0; tjv_hm_open = 1; tjv_hm_finals_at_init = tjv_hm_finals;
#ifdef TJV_PBKDF2
  __CPROVER_assert(key == tjv_pw && keylen == tjv_pwlen, "C14: the PRF is keyed with the password");
  tjv_acc_prev = tjv_acc;
#endif
#ifdef TJV_HKDF
  __CPROVER_assert(key == tjv_hkdf_prk && keylen == 32, "C13: every block is an HMAC keyed with the 32-byte PRK");
  tjv_hkdf_n = *tjv_hkdf_counter;
#endif
}
void tinyjambu_hmac_reinit(tinyjambu_hmac_state_t *state, const unsigned char *key, size_t keylen)
{
  (void)state; (void)key; (void)keylen; tjv_hm_reinits++; tjv_hm_upd = 0; tjv_hm_open = 1;
#ifdef TJV_PBKDF2
  __CPROVER_assert(key == tjv_pw && keylen == tjv_pwlen, "C14: every PRF of the chain is keyed with the password");
#endif
}
void tinyjambu_hmac_update(tinyjambu_hmac_state_t *state, const unsigned char *in, size_t inlen)
{
  (void)state;
  __CPROVER_assert(tjv_hm_open, "HMAC API: update on an initialised state");
  tjv_hm_upd++;
#ifdef TJV_HKDF
  { unsigned iT = (tjv_hkdf_n != 1) ? 1u : 0u;     /* RFC 5869: T(n) = HMAC(PRK, T(n-1) || info || n), no T(0) for n = 1 */
    if (tjv_hm_upd == iT) __CPROVER_assert(in == tjv_hkdf_T && inlen == 32, "C13: T(n-1) is fed first (for n > 1)");
    else if (tjv_hm_upd == iT + 1) __CPROVER_assert(in == tjv_hkdf_info && inlen == tjv_hkdf_infolen, "C13: then the caller's info string, whole");
    else if (tjv_hm_upd == iT + 2) __CPROVER_assert(inlen == 1 && in[0] == tjv_hkdf_n, "C13: then the one-byte block number n");
    else __CPROVER_assert(0, "C13: nothing else is fed into a block's HMAC"); }
#endif
#ifdef TJV_PBKDF2
  if (tjv_hm_finals_at_init == tjv_hm_finals) {
    if (tjv_hm_upd == 1) __CPROVER_assert(in == tjv_salt && inlen == tjv_saltlen, "C14: U_1 = PRF(P, salt || INT32BE(i)): the caller's salt first");
    if (tjv_hm_upd > 2) __CPROVER_assert(0, "C14: nothing else is fed into U_1");
  } else {
    __CPROVER_assert(tjv_hm_upd == 1 && in == tjv_hm_last_out && inlen == 32, "C14: U_k = PRF(P, U_{k-1}): the previous PRF output is the only input");
  }
  /* PBKDF2: the second update after init is the block number; it must be INT32BE(index of this block) */
  if (tjv_hm_upd == 2 && tjv_hm_finals_at_init == tjv_hm_finals) {
    unsigned long i = tjv_hm_inits;
    __CPROVER_assert(inlen == 4 && in[0] == (uint8_t)(i >> 24) && in[1] == (uint8_t)(i >> 16) && in[2] == (uint8_t)(i >> 8) && in[3] == (uint8_t)i,
                     "C14: block i is derived from salt || INT32BE(i), i counted from 1");
    tjv_hm_last4[0] = in[0]; tjv_hm_last4[1] = in[1]; tjv_hm_last4[2] = in[2]; tjv_hm_last4[3] = in[3]; tjv_hm_have4 = 1;
  }
#endif
  if (inlen == 1) { tjv_hm_last1 = in[0]; tjv_hm_have1 = 1; }
}
void tinyjambu_hmac_finalize(tinyjambu_hmac_state_t *state, const unsigned char *key, size_t keylen, unsigned char *out)
{
  (void)state; (void)key; (void)keylen;
  __CPROVER_assert(tjv_hm_open, "HMAC API: finalize on an initialised state");
#ifdef TJV_HKDF
  __CPROVER_assert(tjv_hm_upd == ((tjv_hkdf_n != 1) ? 3u : 2u) && key == tjv_hkdf_prk && keylen == 32 && out == tjv_hkdf_T,
                   "C13: T(n) = HMAC(PRK, T(n-1) || info || n) is stored as the state's current block");
#endif
#ifdef TJV_GHOST_OUT
  /* the digest may land directly in the caller's unbounded output buffer: modelled at the ghost index only */
  { extern size_t tjv_g_rel_to(const unsigned char *base); size_t g = tjv_g_rel_to(out);
    __CPROVER_assert(__CPROVER_w_ok(out, 32), "C06: PRF output buffer has room for 32 bytes");
    if (g < 32) out[g] = nondet_u8(); }
#else
  for (int i = 0; i < 32; i++) out[i] = nondet_u8();
#endif
#ifdef TJV_PBKDF2
  __CPROVER_assert(key == tjv_pw && keylen == tjv_pwlen, "C14: PRF finalised with the password");
  tjv_hm_last_out = out;
#ifndef TJV_GHOST_OUT
  if (tjv_hm_finals == tjv_hm_finals_at_init) tjv_acc = out[tjv_gg]; else tjv_acc ^= out[tjv_gg];
#endif
#endif
  tjv_hm_finals++; tjv_hm_open = 0;
#ifdef TJV_PBKDF2
  { extern unsigned long tjv_count; unsigned long per = tjv_count ? tjv_count : 1;
    __CPROVER_assert(tjv_hm_finals - tjv_hm_finals_at_init <= per, "C14: at most max(count,1) PRF evaluations per block"); }
#endif
}
void tinyjambu_hmac_free(tinyjambu_hmac_state_t *state) { static const tinyjambu_hmac_state_t zero; if (state) *state = zero; tjv_hm_open = 0; }
