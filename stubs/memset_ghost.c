/* memset with a symbolic (unbounded) length, modelled at the harness's ghost index only: bytes other than tjv_g are not
   updated.  Sound for the obligations of the harnesses that link it, because they observe the filled region only at the
   arbitrary index tjv_g and nothing in the code under verification reads the region afterwards (hkdf_expand returns
   right after the zero fill).  In-bounds-ness of the whole fill is asserted. */
#include <stddef.h>
extern size_t tjv_g;
extern unsigned char *tjv_fill_base; extern size_t tjv_fill_len;
unsigned char *tjv_fill_base; size_t tjv_fill_len;
void *memset(void *d, int c, size_t n)
{
  unsigned char *dd = d;
  __CPROVER_assert(n == 0 || __CPROVER_w_ok(dd, n), "C06: memset stays inside the destination object");
  tjv_fill_base = dd; tjv_fill_len = n;
  /* the ghost byte, addressed relative to the start of the fill */
  extern size_t tjv_g_rel_to(const unsigned char *base);
  size_t g = tjv_g_rel_to(dd);
  if (g < n) dd[g] = (unsigned char)c;
  return d;
}
