/* Contract stub of tinyjambu_clean for proofs where the wiped buffers have constant size: zeroes exactly `size` bytes
   (the contract proved for the real function by the clean.* jobs). */
void tinyjambu_clean(void *buf, unsigned size) { unsigned char *d = buf; for (unsigned i = 0; i < size; i++) d[i] = 0; }
