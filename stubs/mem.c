/* memcpy/memset as plain byte loops (used where a copy length is symbolic: CBMC's built-in model loses the source of a
   symbolic-length copy through a loop-havocked pointer and makes the formula 6x larger, see DESIGN.md 4 C11).
   Loops are unwound to the largest constant the code uses, unwinding assertions on.  Part of the trusted base. */
#include <stddef.h>
void *memcpy(void *d, const void *s, size_t n) { unsigned char *dd = d; const unsigned char *ss = s; for (size_t i = 0; i < n; i++) dd[i] = ss[i]; return d; }
void *memset(void *d, int c, size_t n) { unsigned char *dd = d; for (size_t i = 0; i < n; i++) dd[i] = (unsigned char)c; return d; }
