/* Same shape as the library's private tinyjambu_prng_state_p_t (src/tinyjambu-prng.c), plus tail bytes up to the
   96-byte public type: a declared object of this type keeps accesses field-sensitive (see hmon.h). */
#ifndef TJV_PRNG_VIEW_H
#define TJV_PRNG_VIEW_H
#include <stdint.h>
#include "TinyJAMBU.h"
typedef struct { unsigned char V[32]; unsigned char C[32]; uint32_t reseed_counter; uint32_t reseed_limit;
                 tinyjambu_prng_callback_t callback; void *user_data; } prng_view_t;
typedef struct { prng_view_t p; unsigned char tail[96 - sizeof(prng_view_t)]; } prng_obj_t;
size_t tjv_callback(void *user_data, unsigned char *buf, size_t size);
#endif
