/* Contract stubs that ARE the specification (DESIGN.md 3.2):
     - tinyjambu_permutation_NNN  : spec monitor.  Asserts that the real call is exactly the permutation call the
       specification performs next (key words, round count, input state), returns an arbitrary post-state and
       advances the ghost automaton M by one block using spec/tick.h.
     - with -DTJV_LEAF_STUBS also tinyjambu_{setup,absorb,generate_tag}_NNN and tinyjambu_aead_check_tag as
       contract stubs: assert the precondition / the arguments the specification prescribes at this point of the
       mode's program TJV_PROG, then move M over the whole step with an arbitrary resulting state.  Each of these
       stub contracts is discharged against the real function in its own leaf job (jobs_aead.py: leaf.*).
   Program selected with -DPROG=: 1 AEAD encrypt, 2 AEAD decrypt, 3 SIV encrypt, 4 SIV decrypt,
   11 leaf setup, 12 leaf absorb, 13 leaf generate_tag. */
#include "mon.h"
#include "backend/tinyjambu-backend.h"
#include "backend/tinyjambu-aead-common.h"
#include "tjv_assert.h"

struct tjv_mon M;

#ifndef PROG
#error "PROG not defined"
#endif
#define LEAFSRC 9
const struct tjv_step TJV_PROG[] = {
#if PROG == 1
  { K_SETUP, 0x10, 5, 0, 0 }, { K_ABSORB, 0x30, 5, MD_ABS, 0 }, { K_STREAM, 0x50, LONGR, MD_ENC, 0 }, { K_TAG, 0x70, 0, 0, 0 },
#elif PROG == 2
  { K_SETUP, 0x10, 5, 0, 0 }, { K_ABSORB, 0x30, 5, MD_ABS, 0 }, { K_STREAM, 0x50, LONGR, MD_DEC, 0 }, { K_TAG, 0x70, 0, 0, 0 },
  { K_CHECK, 0, 0, 0, 0 },
#elif PROG == 3
  { K_SETUP, 0x90, 5, 0, 0 }, { K_ABSORB, 0x30, 5, MD_ABS, 0 }, { K_ABSORB, 0x50, LONGR, MD_ABS, 1 }, { K_TAG, 0x70, 0, 0, 0 },
  { K_SETUP, 0xB0, 5, 0, 1 }, { K_STREAM, 0xD0, LONGR, MD_KS, 0 },
#elif PROG == 4
  { K_SETUP, 0xB0, 5, 0, 2 }, { K_STREAM, 0xD0, LONGR, MD_KS, 0 },
  { K_SETUP, 0x90, 5, 0, 0 }, { K_ABSORB, 0x30, 5, MD_ABS, 0 }, { K_ABSORB, 0x50, LONGR, MD_ABS, 2 }, { K_TAG, 0x70, 0, 0, 0 },
  { K_CHECK, 0, 0, 0, 0 },
#elif PROG == 11
  { K_SETUP, 0, 5, 0, LEAFSRC },
#elif PROG == 12
  { K_ABSORB, 0, 0, MD_ABS, LEAFSRC },
#elif PROG == 13
  { K_TAG, 0x70, 0, 0, 0 },
#elif PROG == 99
  /* empty program: the specification makes no cipher call at all */
#endif
  { K_DONE, 0, 0, 0, 0 }, { K_DONE, 0, 0, 0, 0 }, { K_DONE, 0, 0, 0, 0 }
};
const int TJV_NPROG = (int)(sizeof(TJV_PROG) / sizeof(TJV_PROG[0]));

static int step_kind(int pc) { return (pc >= 0 && pc < TJV_NPROG) ? TJV_PROG[pc].kind : K_DONE; }
static uint8_t step_dom(int pc) { return TJV_PROG[pc].src == LEAFSRC ? M.l_dom : TJV_PROG[pc].dom; }
static unsigned step_rounds(int pc) { return TJV_PROG[pc].src == LEAFSRC ? M.l_rounds : TJV_PROG[pc].rounds; }
static size_t step_len(int pc)
{
  if (TJV_PROG[pc].kind == K_STREAM) return M.len;
  if (TJV_PROG[pc].src == LEAFSRC) return M.l_len;
  return TJV_PROG[pc].src == 0 ? M.adlen : M.len;
}
static const uint8_t *step_ptr(int pc)
{
  if (TJV_PROG[pc].kind == K_STREAM) return M.in;
  if (TJV_PROG[pc].src == LEAFSRC) return M.l_ptr;
  if (TJV_PROG[pc].src == 0) return M.ad;
  if (TJV_PROG[pc].src == 1) return M.in;
  return M.out;
}
/* word i (0..2) of the 96-bit nonce of a K_SETUP step */
static uint32_t step_nonce_word(int pc, int i)
{
  int src = TJV_PROG[pc].src;
  if (src == LEAFSRC) return tjv_ld(M.l_ptr + 4 * i, 4);
  if (src == 0 || i == 0) return tjv_ld(M.npub + 4 * i, 4);
  if (src == 1) return i == 1 ? M.tag_lo : M.tag_hi;
  return tjv_ld(M.rtagv + 4 * (i - 1), 4);
}

/* streams that are used up are left lazily: at most two data steps are adjacent in any program */
void tjv_skip(void)
{
  for (int t = 0; t < 2; t++) {
    int k = step_kind(M.pc);
    if ((k == K_ABSORB || k == K_STREAM) && M.pos == step_len(M.pc)) { M.pc++; M.pos = 0; M.sub = 0; }
  }
}

int tjv_done(void)
{
  tjv_skip();
#ifndef TJV_LEAF_STUBS
  if (step_kind(M.pc) == K_CHECK) return 1;     /* flat mode: the real check_tag runs, nothing ticks this step */
#endif
  return step_kind(M.pc) == K_DONE;
}

static void check_key(const STATE_T *state)
{
  _Bool ok = 1;
  for (int i = 0; i < KW; i++) ok = ok & (state->k[i] == M.kinv[i]);
  TJV_ASSERT(ok, "perm call: key words are the inverted key");
}

/* ------------------------------------------------------------------ the permutation's contract stub */
void PERM(STATE_T *state, unsigned rounds)
{
  uint32_t e[4], p[4];
  check_key(state);
  tjv_skip();
  int pc = M.pc, k = step_kind(pc);
  TJV_REACHED("permutation stub reached");
#ifdef TJV_LEAF_STUBS
  TJV_ASSERT(k == K_STREAM, "perm call: specification expects a message block permutation here");
  if (k != K_STREAM) return;
#else
  TJV_ASSERT(k == K_SETUP || k == K_ABSORB || k == K_STREAM || k == K_TAG, "perm call: specification expects no further permutation call");
  if (!(k == K_SETUP || k == K_ABSORB || k == K_STREAM || k == K_TAG)) return;
#endif
  unsigned xr;
  if (k == K_SETUP && M.sub == 0) { e[0] = e[1] = e[2] = e[3] = 0; xr = LONGR; }
  else if (k == K_SETUP) { tjv_expect(e, M.cur, step_dom(pc)); xr = 5; }
  else if (k == K_TAG) { tjv_expect(e, M.cur, 0x70); xr = M.sub == 0 ? LONGR : 5; }
  else { tjv_expect(e, M.cur, step_dom(pc)); xr = step_rounds(pc); }
  TJV_ASSERT(rounds == xr, "perm call: round count as in spec");
  TJV_ASSERT(state->s[0] == e[0] && state->s[1] == e[1] && state->s[2] == e[2] && state->s[3] == e[3],
             "perm call: input state as in spec");
  tjv_perm_result(p, e, state->k, rounds);                /* arbitrary (CBMC) / bit-serial NLFSR (native) */
  state->s[0] = p[0]; state->s[1] = p[1]; state->s[2] = p[2]; state->s[3] = p[3];
#ifndef TJV_LEAF_STUBS
  if (k == K_SETUP) {
    M.cur[0] = p[0]; M.cur[1] = p[1]; M.cur[2] = p[2]; M.cur[3] = p[3];
    if (M.sub > 0) M.cur[3] ^= step_nonce_word(pc, M.sub - 1);
    if (M.sub >= 3) { M.pc = pc + 1; M.sub = 0; M.pos = 0; } else M.sub++;
  } else if (k == K_TAG) {
    M.cur[0] = p[0]; M.cur[1] = p[1]; M.cur[2] = p[2]; M.cur[3] = p[3];
    if (M.sub == 0) { M.tag_lo = p[2]; M.sub = 1; } else { M.tag_hi = p[2]; M.pc = pc + 1; M.sub = 0; M.pos = 0; }
  } else
#endif
  {
    int mode = (k == K_ABSORB) ? MD_ABS : TJV_PROG[pc].mode;
    /* the specification reads the caller's ORIGINAL message: an in-place implementation that overwrites input it has
       not consumed yet (store before load) fails here for the ghost index that hits the overwritten byte */
    if ((k == K_STREAM || TJV_PROG[pc].src == 1) && M.len > 0 && M.o.gidx >= M.pos && M.o.gidx - M.pos < 4)
      TJV_ASSERT(M.in[M.o.gidx] == M.in_g, "spec: message block is read from the caller's original input (load before store)");
    if (k == K_ABSORB && TJV_PROG[pc].src == 2 && M.len > 0 && M.o.gidx >= M.pos && M.o.gidx - M.pos < 4)
      TJV_ASSERT(M.o.gout_set && M.out[M.o.gidx] == M.o.gout, "SIV decrypt: MAC pass runs over the plaintext recovered by the keystream pass");
    M.pos += tjv_stream_post(M.cur, p, mode, step_ptr(pc), step_len(pc), M.pos, &M.o);
  }
}

#ifdef TJV_LEAF_STUBS
/* ------------------------------------------------------------------ contract stubs of the leaf functions */
static void jump(STATE_T *state)
{
  for (int i = 0; i < 4; i++) { M.cur[i] = nondet_u32(); state->s[i] = M.cur[i]; }
  M.pc++; M.pos = 0; M.sub = 0;
}

void SETUP(STATE_T *state, const unsigned char *nonce, unsigned char domain)
{
  tjv_skip();
  int pc = M.pc;
  TJV_REACHED("setup stub reached");
  TJV_ASSERT(step_kind(pc) == K_SETUP, "setup call: specification expects key/nonce setup here");
  if (step_kind(pc) != K_SETUP) return;
  check_key(state);
  TJV_ASSERT(domain == step_dom(pc), "setup call: nonce domain as in spec");
  TJV_ASSERT(tjv_ld(nonce, 4) == step_nonce_word(pc, 0) && tjv_ld(nonce + 4, 4) == step_nonce_word(pc, 1) &&
             tjv_ld(nonce + 8, 4) == step_nonce_word(pc, 2), "setup call: the 96-bit nonce the specification prescribes");
  jump(state);
}

void ABSORB(STATE_T *state, const unsigned char *data, size_t size, unsigned char domain, unsigned rounds)
{
  /* leave data steps that are used up, but stop at the absorb step this call implements (it may itself be empty) */
  for (int t = 0; t < 2; t++) {
    int k = step_kind(M.pc);
    if (k == K_ABSORB && M.pos == 0 && domain == step_dom(M.pc) && rounds == step_rounds(M.pc) && data == step_ptr(M.pc) && size == step_len(M.pc)) break;
    if ((k == K_ABSORB || k == K_STREAM) && M.pos == step_len(M.pc)) { M.pc++; M.pos = 0; M.sub = 0; }
  }
  int pc = M.pc;
  TJV_REACHED("absorb stub reached");
  TJV_ASSERT(step_kind(pc) == K_ABSORB && M.pos == 0, "absorb call: specification absorbs a whole stream here");
  if (step_kind(pc) != K_ABSORB) return;
  check_key(state);
  TJV_ASSERT(ST_EQ_CUR(state), "absorb call: input state as in spec");
  TJV_ASSERT(domain == step_dom(pc) && rounds == step_rounds(pc), "absorb call: domain and round count as in spec");
  TJV_ASSERT(data == step_ptr(pc) && size == step_len(pc), "absorb call: exactly the stream the specification absorbs (start, full length)");
  if (TJV_PROG[pc].src == 1 && M.len > 0)
    TJV_ASSERT(M.in[M.o.gidx] == M.in_g, "spec: message stream absorbed from the caller's original input");
  if (TJV_PROG[pc].src == 2 && M.len > 0)
    TJV_ASSERT(M.o.gout_set && M.out[M.o.gidx] == M.o.gout, "SIV decrypt: MAC pass runs over the plaintext recovered by the keystream pass");
  jump(state);
}

void GENTAG(STATE_T *state, unsigned char *tag)
{
  tjv_skip();
  int pc = M.pc;
  TJV_REACHED("generate_tag stub reached");
  TJV_ASSERT(step_kind(pc) == K_TAG, "generate_tag call: specification finalises here (all AD and message consumed)");
  if (step_kind(pc) != K_TAG) return;
  check_key(state);
  TJV_ASSERT(ST_EQ_CUR(state), "generate_tag call: input state as in spec");
  M.tag_lo = nondet_u32(); M.tag_hi = nondet_u32();
#if PROG == 1 || PROG == 3
  /* encrypt: the tag goes right behind the ciphertext body; writing through M.out (never havocked) instead of the
     caller's loop-modified pointer keeps the write on one object */
  TJV_ASSERT(tag == M.out + M.len, "generate_tag call: tag is written right behind the ciphertext body");
  tag = M.out + M.len;
#endif
  for (int i = 0; i < 4; i++) { tag[i] = (uint8_t)(M.tag_lo >> (8 * i)); tag[4 + i] = (uint8_t)(M.tag_hi >> (8 * i)); }
  jump(state);
}

int tinyjambu_aead_check_tag(unsigned char *plaintext, size_t plaintext_len,
                             const unsigned char *tag1, const unsigned char *tag2, size_t size)
{
  tjv_skip();
  TJV_REACHED("check_tag stub reached");
  TJV_ASSERT(step_kind(M.pc) == K_CHECK, "check_tag call: specification verifies the tag here");
  if (step_kind(M.pc) != K_CHECK) return -1;
  TJV_ASSERT(size == 8, "check_tag call: all 8 tag bytes are compared");
  TJV_ASSERT(plaintext == M.out && plaintext_len == M.len, "C04: check_tag gets the start of the plaintext buffer and its full length");
  _Bool spec1 = 1, recv2 = 1, same = 1;
  for (int i = 0; i < 8; i++) {
    uint8_t t = (uint8_t)((i < 4 ? M.tag_lo : M.tag_hi) >> (8 * (i & 3)));
    spec1 = spec1 & (tag1[i] == t);
    recv2 = recv2 & (tag2[i] == M.rtagv[i]);
    same = same & (tag1[i] == tag2[i]);
  }
  TJV_ASSERT(spec1, "C03: the recomputed tag passed to check_tag is the specification's tag");
  TJV_ASSERT(recv2, "C03: the other tag passed to check_tag is the received tag (trailing 8 bytes of the input)");
  /* contract of check_tag (discharged by util.check_tag.contract / util.check_tag.size8): verdict and byte effects;
     only the ghost-index byte is modelled, nothing reads the others afterwards */
  if (!same && plaintext_len > 0) plaintext[M.o.gidx] = 0;
  M.pc++; M.pos = 0; M.sub = 0;
  return same ? 0 : -1;
}
#endif
