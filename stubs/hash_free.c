/* Contract stubs of the hash API for the leakage harnesses: arbitrary digest, control flow independent of all data
   (the control flow of the real hash functions is checked in ct.hash). */
#include "TinyJAMBU.h"
unsigned char nondet_u8(void);
void tinyjambu_hash(unsigned char *out, const unsigned char *in, size_t inlen) { (void)in; (void)inlen; for (int i = 0; i < 32; i++) out[i] = nondet_u8(); }
void tinyjambu_hash_init(tinyjambu_hash_state_t *state) { (void)state; }
void tinyjambu_hash_reinit(tinyjambu_hash_state_t *state) { (void)state; }
void tinyjambu_hash_update(tinyjambu_hash_state_t *state, const unsigned char *in, size_t inlen) { (void)state; (void)in; (void)inlen; }
void tinyjambu_hash_finalize(tinyjambu_hash_state_t *state, unsigned char *out) { (void)state; for (int i = 0; i < 32; i++) out[i] = nondet_u8(); }
void tinyjambu_hash_free(tinyjambu_hash_state_t *state) { (void)state; }
