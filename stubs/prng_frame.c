/* Contract stubs for the unbounded reseed-budget proof of the PRNG (C16): frame-only hash API and the entropy callback.
   Ghost B = 32-byte blocks emitted since the last request to the entropy source:
     - the callback stub sets B = 0 (an entropy request happened) and delivers an arbitrary number of bytes;
     - the stub standing for the per-block output hash tinyjambu_hash(H, V, 32) asserts B + 1 <= reseed_limit and counts. */
#include "TinyJAMBU.h"
#include "tjv.h"
#include "prng_view.h"
unsigned tjv_B;
prng_view_t *tjv_prng;
unsigned tjv_cb_calls;
size_t tjv_callback(void *user_data, unsigned char *buf, size_t size)
{
  (void)user_data;
  __CPROVER_assert(size == 32, "C17: the entropy source is asked for a full 32-byte seed");
  size_t n = nondet_size();
  for (size_t i = 0; i < 32; i++) if (i < n) buf[i] = nondet_u8();
  tjv_B = 0; tjv_cb_calls++;
  return n;
}
void tinyjambu_hash(unsigned char *out, const unsigned char *in, size_t inlen)
{
  if (tjv_prng && in == tjv_prng->V && inlen == 32) {       /* this is "output block = Hash(V)" */
    __CPROVER_assert(tjv_B + 1 <= tjv_prng->reseed_limit, "C16: block emitted within the reseed budget (at most limit blocks between entropy requests)");
    tjv_B++;
  }
  for (int i = 0; i < 32; i++) out[i] = nondet_u8();
}
void tinyjambu_hash_init(tinyjambu_hash_state_t *state) { (void)state; }
void tinyjambu_hash_update(tinyjambu_hash_state_t *state, const unsigned char *in, size_t inlen) { (void)state; (void)in; (void)inlen; }
void tinyjambu_hash_finalize(tinyjambu_hash_state_t *state, unsigned char *out) { (void)state; for (int i = 0; i < 32; i++) out[i] = nondet_u8(); }
void tinyjambu_hash_free(tinyjambu_hash_state_t *state) { (void)state; }
int tinyjambu_trng_generate(unsigned char *out) { for (int i = 0; i < 32; i++) out[i] = nondet_u8(); tjv_B = 0; return nondet_bool(); }
