/* Ghost specification automaton shared by the permutation's contract stub (spec monitor), the contract stubs of
   tinyjambu_{setup,absorb,generate_tag}_NNN / tinyjambu_aead_check_tag, and the harnesses.  See DESIGN.md 3.2. */
#ifndef TJV_MON_H
#define TJV_MON_H
#include <stddef.h>
#include <stdint.h>
#include "tick.h"

#ifndef NNN
#define NNN 128
#endif
#define KW (NNN / 32)
#define LONGR (NNN == 128 ? 8u : (NNN == 192 ? 9u : 10u))   /* 1024 / 1152 / 1280 steps */
#define TJ_CAT_(a, b) a##b
#define TJ_CAT(a, b) TJ_CAT_(a, b)
#define TJ_CAT3(a, b, c) TJ_CAT(TJ_CAT(a, b), c)
#define STATE_T TJ_CAT3(tinyjambu_, NNN, _state_t)
#define PERM TJ_CAT(tinyjambu_permutation_, NNN)
#define SETUP TJ_CAT(tinyjambu_setup_, NNN)
#define ABSORB TJ_CAT(tinyjambu_absorb_, NNN)
#define GENTAG TJ_CAT(tinyjambu_generate_tag_, NNN)
#define AEAD_ENC TJ_CAT3(tinyjambu_, NNN, _aead_encrypt)
#define AEAD_DEC TJ_CAT3(tinyjambu_, NNN, _aead_decrypt)
#define SIV_ENC TJ_CAT3(tinyjambu_, NNN, _siv_encrypt)
#define SIV_DEC TJ_CAT3(tinyjambu_, NNN, _siv_decrypt)

/* program step kinds */
enum { K_SETUP = 1, K_ABSORB = 2, K_STREAM = 3, K_TAG = 4, K_CHECK = 5, K_DONE = 6 };

struct tjv_step {
  int kind;
  uint8_t dom;            /* K_SETUP: nonce domain; K_ABSORB / K_STREAM: block domain */
  unsigned rounds;        /* K_ABSORB / K_STREAM */
  int mode;               /* K_STREAM: MD_ENC / MD_DEC / MD_KS */
  int src;                /* K_SETUP: 0 = npub, 1 = npub[0..3] || spec tag, 2 = npub[0..3] || received tag
                             K_ABSORB: 0 = ad, 1 = message input (M.in), 2 = recovered plaintext (M.out) */
};

struct tjv_mon {
  /* ---- mutable ghost state (the only fields listed in loop assigns clauses) ---- */
  int pc;                 /* index of the current program step */
  int sub;                /* sub-step inside K_SETUP (0..3) and K_TAG (0..1) when ticked */
  size_t pos;             /* bytes consumed of the stream that is being ticked */
  uint32_t cur[4];        /* specification state after the last step */
  struct tjv_out o;       /* ghost output index and the specified output byte at that index */
  uint32_t tag_lo, tag_hi;/* specified tag words */
  /* ---- parameters: fixed by the harness before the call ---- */
  uint32_t kinv[8];       /* inverted key words */
  const uint8_t *npub, *ad, *in;
  uint8_t *out;           /* start of the output message buffer */
  size_t adlen, len;      /* AD length, message length */
  uint8_t in_g;           /* the caller's ORIGINAL input byte in[o.gidx] (copied by the harness before the call) */
  uint8_t rtagv[8];       /* decrypt: the received tag (the 8 bytes at in + len, copied by the harness before the call) */
  /* leaf jobs (one step, arbitrary parameters) */
  const uint8_t *l_ptr; size_t l_len; uint8_t l_dom; unsigned l_rounds;
};
extern struct tjv_mon M;
extern const struct tjv_step TJV_PROG[];
extern const int TJV_NPROG;
void tjv_skip(void);
int tjv_done(void);

#define ST_EQ_CUR(st) ((st)->s[0] == M.cur[0] && (st)->s[1] == M.cur[1] && (st)->s[2] == M.cur[2] && (st)->s[3] == M.cur[3])
#endif
