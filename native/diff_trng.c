/* Native fault injection for the system entropy source (C18): the REAL src/random/tinyjambu-trng-dev-random.c is compiled
   three times (getrandom / getentropy / raw syscall) with the OS entry point renamed to the scripted functions below.
   Script: every sequence over {EINTR, EAGAIN} of length 0..6 followed by success or a permanent error (EIO), seed buffer
   pre-filled with garbage.  Exit 1 + FAIL lines on any deviation. */
#include <errno.h>
#include <stdio.h>
#include <string.h>
#include <stddef.h>
#include <sys/types.h>
static int script[16], slen, spos, final_ok, calls, longrun;
static long os(void *buf, size_t n, long okval)
{
  calls++;
  if (longrun > 0 && calls <= longrun) { errno = (calls & 1) ? EINTR : EAGAIN; return -1; }
  if (spos < slen) { errno = script[spos++]; return -1; }
  if (!final_ok) { errno = EIO; memset(buf, 0x77, n); return -1; }
  for (size_t i = 0; i < n; i++) ((unsigned char *)buf)[i] = (unsigned char)(0xC0 + i);
  return okval;
}
ssize_t tjv_getrandom(void *b, size_t n, unsigned f) { (void)f; return os(b, n, (long)n); }
int tjv_getentropy(void *b, size_t n) { return (int)os(b, n, 0); }
long tjv_syscall(long num, void *b, size_t n, int f) { (void)num; (void)f; return os(b, n, (long)n); }
int trng_getrandom(unsigned char *out); int trng_getentropy(unsigned char *out); int trng_syscall(unsigned char *out);
int main(void)
{
  int nfail = 0; int (*fn[3])(unsigned char *) = {trng_getrandom, trng_getentropy, trng_syscall};
  const char *nm[3] = {"getrandom", "getentropy", "syscall"};
  for (int v = 0; v < 3; v++)
    for (int len = 0; len <= 6; len++)
      for (int bits = 0; bits < (1 << len); bits++)
        for (int ok = 0; ok < 2; ok++) {
          unsigned char out[32]; memset(out, 0x5A, 32);
          slen = len; spos = 0; final_ok = ok; calls = 0;
          for (int i = 0; i < len; i++) script[i] = ((bits >> i) & 1) ? EAGAIN : EINTR;
          int r = fn[v](out), bad = 0;
          if (r != ok) bad = 1;
          for (int i = 0; i < 32; i++) if (out[i] != (ok ? (unsigned char)(0xC0 + i) : 0)) bad = 1;
          if (calls != len + 1) bad = 1;
          if (bad && nfail++ < 6) { printf("FAIL trng (%s variant): fault sequence [", nm[v]); for (int i = 0; i < len; i++) printf("%s ", script[i] == EINTR ? "EINTR" : "EAGAIN"); printf("%s]: returned %d, %d OS calls, buffer[0]=%02x\n", ok ? "success" : "permanent", r, calls, out[0]); }
        }
  /* long transient runs (a retry budget would show here): n failures then success */
  static const int LONG[] = {100, 1000, 1001, 5000, 70000};
  for (int v = 0; v < 3; v++)
    for (int q = 0; q < 5; q++) {
      unsigned char out[32]; memset(out, 0x5A, 32);
      longrun = LONG[q]; slen = 0; spos = 0; final_ok = 1; calls = 0;
      int r = fn[v](out), bad = (r != 1) || calls != LONG[q] + 1;
      for (int i = 0; i < 32; i++) if (out[i] != (unsigned char)(0xC0 + i)) bad = 1;
      longrun = 0;
      if (bad && nfail++ < 6) printf("FAIL trng (%s variant): %d transient errors followed by success: returned %d after %d OS calls, buffer[0]=%02x\n", nm[v], LONG[q], r, calls, out[0]);
    }
  printf("diff_trng: %d failures\n", nfail);
  return nfail ? 1 : 0;
}
