/* Oracle validation: the reference model (native/ref.h = spec/tick.h + spec/nlfsr.h) must reproduce every vector in
   /repo/test/kat (6 AEAD/SIV files, hash, HMAC).  Reported as a test of the specification text, not as a proof. */
#include <stdio.h>
#include <stdlib.h>
#include "ref.h"

static int hexval(int c) { return c <= '9' ? c - '0' : (c | 32) - 'a' + 10; }
static size_t parsehex(const char *s, uint8_t *out)
{
  size_t n = 0;
  while (s[0] && s[1] && s[0] != '\n' && s[0] != '\r') { out[n++] = (uint8_t)(hexval(s[0]) * 16 + hexval(s[1])); s += 2; }
  return n;
}
static uint8_t key[64], nonce[64], pt[4096], ad[4096], ct[4096], msg[4096], md[64], out[4200], out2[4200];

static long aead_file(const char *path, unsigned klen, int siv, long *bad)
{
  FILE *f = fopen(path, "r"); char line[20000]; long n = 0; size_t ptl = 0, adl = 0, ctl = 0;
  if (!f) { fprintf(stderr, "cannot open %s\n", path); exit(2); }
  while (fgets(line, sizeof line, f)) {
    if (!strncmp(line, "Key = ", 6)) parsehex(line + 6, key);
    else if (!strncmp(line, "Nonce = ", 8)) parsehex(line + 8, nonce);
    else if (!strncmp(line, "PT = ", 5)) ptl = parsehex(line + 5, pt);
    else if (!strncmp(line, "AD = ", 5)) adl = parsehex(line + 5, ad);
    else if (!strncmp(line, "CT = ", 5)) {
      ctl = parsehex(line + 5, ct); n++;
      if (siv) ref_siv_encrypt(klen, out, pt, ptl, ad, adl, nonce, key); else ref_aead_encrypt(klen, out, pt, ptl, ad, adl, nonce, key);
      int r = siv ? ref_siv_decrypt(klen, out2, ct, ctl, ad, adl, nonce, key) : ref_aead_decrypt(klen, out2, ct, ctl, ad, adl, nonce, key);
      if (ctl != ptl + 8 || memcmp(out, ct, ctl) || r != 0 || memcmp(out2, pt, ptl)) { (*bad)++; if (*bad < 5) fprintf(stderr, "MISMATCH %s vector %ld\n", path, n); }
    }
  }
  fclose(f); return n;
}
static long hash_file(const char *path, int hmac, long *bad)
{
  FILE *f = fopen(path, "r"); char line[20000]; long n = 0; size_t ml = 0, kl = 0;
  if (!f) { fprintf(stderr, "cannot open %s\n", path); exit(2); }
  while (fgets(line, sizeof line, f)) {
    if (!strncmp(line, "Key = ", 6)) kl = parsehex(line + 6, key);
    else if (!strncmp(line, "Msg = ", 6)) ml = parsehex(line + 6, msg);
    else if (!strncmp(line, "MD = ", 5) || !strncmp(line, "Tag = ", 6)) {
      parsehex(strchr(line, '=') + 2, md); n++;
      if (hmac) ref_hmac(out, key, kl, msg, ml); else ref_hash(out, msg, ml);
      if (memcmp(out, md, 32)) { (*bad)++; if (*bad < 5) fprintf(stderr, "MISMATCH %s vector %ld\n", path, n); }
    }
  }
  fclose(f); return n;
}
int main(int argc, char **argv)
{
  const char *dir = argc > 1 ? argv[1] : "/repo/test/kat"; char p[512]; long n = 0, bad = 0;
  static const struct { const char *f; unsigned klen; int siv; } A[] = {
    {"TinyJAMBU-128.txt", 128, 0}, {"TinyJAMBU-192.txt", 192, 0}, {"TinyJAMBU-256.txt", 256, 0},
    {"TinyJAMBU-128-SIV.txt", 128, 1}, {"TinyJAMBU-192-SIV.txt", 192, 1}, {"TinyJAMBU-256-SIV.txt", 256, 1}};
  for (int i = 0; i < 6; i++) { snprintf(p, sizeof p, "%s/%s", dir, A[i].f); n += aead_file(p, A[i].klen, A[i].siv, &bad); }
  snprintf(p, sizeof p, "%s/TinyJAMBU-HASH.txt", dir); n += hash_file(p, 0, &bad);
  snprintf(p, sizeof p, "%s/TinyJAMBU-HMAC.txt", dir); n += hash_file(p, 1, &bad);
  printf("katcheck: %ld vectors, %ld mismatches\n", n, bad);
  return bad ? 1 : (n == 0 ? 2 : 0);
}
