/* Native differential check of the REAL library (compiled from /repo's working tree) against the reference model, for the
   AEAD / SIV modes and tinyjambu_aead_check_tag (C01-C04, C06 partly, C08, C09).
     diff_aead campaign <seed> <iterations>
     diff_aead case <nnn> <prog 1..4> <adlen> <mlen> <inplace 0/1> <keyhex> <noncehex> <adhex> <inhex>
   Used (a) to replay CBMC counterexamples on the real code, (b) as the fallback decision procedure when a proof's
   scaffolding (loop contract mapping) no longer matches a refactored tree.  Exit 0: no difference, 1: difference (printed). */
#include <stdio.h>
#include <stdlib.h>
#include "TinyJAMBU.h"
#include "ref.h"
int tinyjambu_aead_check_tag(unsigned char *plaintext, size_t plaintext_len, const unsigned char *tag1, const unsigned char *tag2, size_t size);

typedef void (*enc_fn)(unsigned char *, size_t *, const unsigned char *, size_t, const unsigned char *, size_t, const unsigned char *, const unsigned char *);
typedef int (*dec_fn)(unsigned char *, size_t *, const unsigned char *, size_t, const unsigned char *, size_t, const unsigned char *, const unsigned char *);
static const struct { const char *name; unsigned klen; int siv; enc_fn enc; dec_fn dec; } V[6] = {
  {"TinyJAMBU-128", 128, 0, tinyjambu_128_aead_encrypt, tinyjambu_128_aead_decrypt},
  {"TinyJAMBU-192", 192, 0, tinyjambu_192_aead_encrypt, tinyjambu_192_aead_decrypt},
  {"TinyJAMBU-256", 256, 0, tinyjambu_256_aead_encrypt, tinyjambu_256_aead_decrypt},
  {"TinyJAMBU-128-SIV", 128, 1, tinyjambu_128_siv_encrypt, tinyjambu_128_siv_decrypt},
  {"TinyJAMBU-192-SIV", 192, 1, tinyjambu_192_siv_encrypt, tinyjambu_192_siv_decrypt},
  {"TinyJAMBU-256-SIV", 256, 1, tinyjambu_256_siv_encrypt, tinyjambu_256_siv_decrypt}};

static uint64_t rs;
static uint32_t rnd(void) { rs ^= rs << 13; rs ^= rs >> 7; rs ^= rs << 17; return (uint32_t)(rs >> 16); }
static uint8_t rbyte(void) { uint32_t r = rnd(); return (r & 3) == 0 ? (uint8_t)(0x80 | (r >> 8)) : (uint8_t)(r >> 8); }
static int nfail;
static void hexs(const char *l, const uint8_t *p, size_t n) { printf(" %s=", l); for (size_t i = 0; i < n && i < 48; i++) printf("%02x", p[i]); if (n > 48) printf(".."); }
static int hexval(int c) { return c <= '9' ? c - '0' : (c | 32) - 'a' + 10; }
static size_t parsehex(const char *s, uint8_t *out, size_t max) { size_t n = 0; if (!strcmp(s, "-")) return 0; while (s[0] && s[1] && n < max) { out[n++] = (uint8_t)(hexval(s[0]) * 16 + hexval(s[1])); s += 2; } return n; }

#define GUARD 16
/* one case: variant v, buffers placed at byte offsets (alignment) offi/offo inside guarded arenas */
static int run_case(int v, size_t adlen, size_t mlen, int inplace, const uint8_t *k, const uint8_t *npub, const uint8_t *ad, const uint8_t *m,
                    unsigned offi, unsigned offo, int tamper, uint32_t tr)
{
  unsigned klen = V[v].klen; int siv = V[v].siv, bad = 0;
  size_t clen = mlen + 8;
  uint8_t *refc = malloc(clen + 1), *arena_i = malloc(clen + 2 * GUARD + 8), *arena_o = malloc(clen + 2 * GUARD + 8);
  uint8_t *adc = malloc(adlen + 1), *refm = malloc(mlen + 1);
  uint8_t kc[32], nc[12];
  memcpy(kc, k, klen / 8); memcpy(nc, npub, 12); memcpy(adc, ad, adlen);
  if (siv) ref_siv_encrypt(klen, refc, m, mlen, ad, adlen, npub, k); else ref_aead_encrypt(klen, refc, m, mlen, ad, adlen, npub, k);
  /* ---- encrypt */
  memset(arena_i, 0xA5, clen + 2 * GUARD + 8); memset(arena_o, 0x5A, clen + 2 * GUARD + 8);
  uint8_t *ib = arena_i + GUARD + offi, *ob = inplace ? ib : arena_o + GUARD + offo;
  uint8_t *oar = inplace ? arena_i : arena_o; unsigned oo = inplace ? offi : offo;
  memcpy(ib, m, mlen);
  size_t clen_out = 0xDEAD;
  V[v].enc(ob, &clen_out, ib, mlen, adc, adlen, nc, kc);
  if (clen_out != clen) { bad = 1; printf("FAIL %s encrypt: *clen=%zu expected %zu", V[v].name, clen_out, clen); }
  else if (memcmp(ob, refc, clen)) { size_t i = 0; while (ob[i] == refc[i]) i++; bad = 1; printf("FAIL %s encrypt: output byte %zu is %02x, specification says %02x", V[v].name, i, ob[i], refc[i]); }
  for (unsigned i = 0; i < GUARD + oo && !bad; i++) if (oar[i] != (inplace ? 0xA5 : 0x5A)) { bad = 1; printf("FAIL %s encrypt: wrote before the output buffer", V[v].name); }
  for (size_t i = GUARD + oo + clen; i < clen + 2 * GUARD + 8 && !bad; i++) if (oar[i] != (inplace ? 0xA5 : 0x5A)) { bad = 1; printf("FAIL %s encrypt: wrote %zu bytes past the documented mlen+8 output", V[v].name, i - (GUARD + oo + clen) + 1); }
  if (!bad && !inplace && memcmp(ib, m, mlen)) { bad = 1; printf("FAIL %s encrypt: plaintext input modified", V[v].name); }
  if (!bad && (memcmp(kc, k, klen / 8) || memcmp(nc, npub, 12) || memcmp(adc, ad, adlen))) { bad = 1; printf("FAIL %s encrypt: key/nonce/AD modified", V[v].name); }
  /* ---- decrypt of the SPECIFIED ciphertext, optionally tampered */
  if (!bad) {
    uint8_t *cc = malloc(clen + 1); memcpy(cc, refc, clen);
    const char *what = "genuine packet";
    if (tamper == 1 && clen > 0) { cc[tr % clen] ^= (uint8_t)(1u << ((tr >> 20) & 7)); what = "one bit flipped in body/tag"; }
    else if (tamper == 2) { uint32_t x = tr | 1; for (int i = 0; i < 4; i++) { cc[mlen + i] ^= (uint8_t)(x >> (8 * i)); cc[mlen + 4 + i] ^= (uint8_t)(x >> (8 * i)); } what = "tag ^ (x||x)"; }
    else if (tamper == 3) { cc[mlen + 2 + 4 * (tr & 1)] ^= (uint8_t)(1 + (tr >> 8) % 255); what = "tag byte 2 or 6 changed"; }
    else if (tamper == 4) { cc[mlen + (tr & 7)] ^= (uint8_t)(1 + (tr >> 8) % 255); what = "one tag byte changed"; }
    else if (tamper == 5 && adlen) { adc[tr % adlen] ^= (uint8_t)(1u << ((tr >> 20) & 7)); what = "AD bit flipped"; }
    else if (tamper == 6) { nc[tr % 12] ^= (uint8_t)(1u << ((tr >> 20) & 7)); what = "nonce bit flipped"; }
    else if (tamper == 7) { kc[tr % (klen / 8)] ^= (uint8_t)(1u << ((tr >> 20) & 7)); what = "key bit flipped"; }
    int rr = siv ? ref_siv_decrypt(klen, refm, cc, clen, adc, adlen, nc, kc) : ref_aead_decrypt(klen, refm, cc, clen, adc, adlen, nc, kc);
    memset(arena_i, 0xA5, clen + 2 * GUARD + 8); memset(arena_o, 0x5A, clen + 2 * GUARD + 8);
    ib = arena_i + GUARD + offi; ob = inplace ? ib : arena_o + GUARD + offo;
    /* sometimes: separate but NEIGHBOURING buffers (plaintext buffer, 0..7 bytes of gap, ciphertext buffer) */
    uint8_t *adjar = 0;
    if (!inplace && ((tr >> 27) & 3) == 0) {
      unsigned gap = (tr >> 24) & 7;
      adjar = malloc(mlen + gap + clen + 2 * GUARD); memset(adjar, 0x5A, mlen + gap + clen + 2 * GUARD);
      ob = adjar + GUARD; ib = ob + mlen + gap;
    }
    memcpy(ib, cc, clen);
    for (size_t i = 0; i < mlen && !inplace; i++) ob[i] = (uint8_t)(0xC0 + i);
    size_t mlen_out = 0xDEAD;
    int r = V[v].dec(ob, &mlen_out, ib, clen, adc, adlen, nc, kc);
    if (r != rr) { bad = 1; printf("FAIL %s decrypt (%s): returned %d, specification says %d", V[v].name, what, r, rr); }
    else if (mlen_out != mlen) { bad = 1; printf("FAIL %s decrypt (%s): *mlen=%zu expected %zu", V[v].name, what, mlen_out, mlen); }
    else if (memcmp(ob, refm, mlen)) { size_t i = 0; while (ob[i] == refm[i]) i++; bad = 1; printf("FAIL %s decrypt (%s, result %d): plaintext byte %zu is %02x, must be %02x%s", V[v].name, what, r, i, ob[i], refm[i], r ? " (C04: unauthenticated plaintext released)" : ""); }
    if (!bad && !inplace && !adjar) for (size_t i = GUARD + offo + mlen; i < clen + 2 * GUARD + 8; i++) if (arena_o[i] != 0x5A) { bad = 1; printf("FAIL %s decrypt: wrote past the documented clen-8 output", V[v].name); break; }
    if (bad && adjar) printf(" [neighbouring buffers, gap %u]", (unsigned)((tr >> 24) & 7));
    if (!bad && memcmp(ib + mlen, cc + mlen, 8)) { bad = 1; printf("FAIL %s decrypt: tag bytes of the input modified", V[v].name); }
    free(cc); free(adjar);
  }
  if (bad) {
    printf(" | adlen=%zu mlen=%zu inplace=%d align_in=%u align_out=%u", adlen, mlen, inplace, offi, offo);
    hexs("key", k, klen / 8); hexs("nonce", npub, 12); hexs("ad", ad, adlen); hexs("m", m, mlen); printf("\n");
    nfail++;
  }
  free(refc); free(arena_i); free(arena_o); free(adc); free(refm);
  return bad;
}

static void short_inputs(int v)
{
  for (size_t clen = 0; clen < 8; clen++) {
    uint8_t m[16], c[8], k[32], n[12]; size_t ml = 12345;
    memset(m, 0x77, 16); for (int i = 0; i < 8; i++) c[i] = rbyte(); for (int i = 0; i < 32; i++) k[i] = rbyte(); for (int i = 0; i < 12; i++) n[i] = rbyte();
    int r = V[v].dec(m, &ml, c, clen, 0, 0, n, k);
    int dirty = 0; for (int i = 0; i < 16; i++) dirty |= (m[i] != 0x77);
    if (r >= 0 || dirty) { nfail++; printf("FAIL %s decrypt with clen=%zu: result %d (must be negative), plaintext buffer %s\n", V[v].name, clen, r, dirty ? "written" : "untouched"); }
  }
}
static void check_tag_cases(uint32_t iters)
{
  for (uint32_t it = 0; it < iters; it++) {
    size_t len = rnd() % 70; unsigned off = rnd() & 7; if ((rnd() & 15) == 0) len = 1000 + rnd() % 3000;
    uint8_t *ar = malloc(len + 32), t1[8], t2[8], *p = ar + 8 + off;
    memset(ar, 0xEE, len + 32);
    for (size_t i = 0; i < len; i++) p[i] = (uint8_t)(rbyte() | 1);
    for (int i = 0; i < 8; i++) t1[i] = t2[i] = rbyte();
    int mode = rnd() % 4, same = 1;
    if (mode == 1) { t2[rnd() & 7] ^= (uint8_t)(1u << (rnd() & 7)); same = 0; }
    if (mode == 2) { uint32_t x = rnd() | 1; for (int i = 0; i < 4; i++) { t2[i] ^= (uint8_t)(x >> (8 * i)); t2[4 + i] ^= (uint8_t)(x >> (8 * i)); } same = !memcmp(t1, t2, 8); }
    if (mode == 3) { t2[2 + 4 * (rnd() & 1)] ^= (uint8_t)(1 + rnd() % 255); same = 0; }
    int r = tinyjambu_aead_check_tag(p, len, t1, t2, 8), bad = 0;
    if (r != (same ? 0 : -1)) { bad = 1; printf("FAIL check_tag: returned %d for %s tags", r, same ? "equal" : "different"); }
    for (size_t i = 0; i < len && !bad; i++) if (same ? !(p[i] & 1) : p[i] != 0) { bad = 1; printf("FAIL check_tag (%s): plaintext byte %zu of %zu is %02x (offset-in-word %u)", same ? "accept" : "reject", i, len, p[i], off); }
    for (size_t i = 0; i < len + 32 && !bad; i++) if ((i < 8 + off || i >= 8 + off + len) && ar[i] != 0xEE) { bad = 1; printf("FAIL check_tag: wrote outside plaintext[0..len)"); }
    if (bad) { nfail++; hexs("tag1", t1, 8); hexs("tag2", t2, 8); printf(" len=%zu align=%u\n", len, off); }
    free(ar);
  }
}

int main(int argc, char **argv)
{
  if (argc >= 4 && !strcmp(argv[1], "campaign")) {
    rs = 0x9E3779B97F4A7C15ull ^ strtoull(argv[2], 0, 10); uint32_t iters = (uint32_t)strtoul(argv[3], 0, 10);
    for (int v = 0; v < 6; v++) short_inputs(v);
    check_tag_cases(iters * 4);
    /* systematic small shapes x every tamper kind (empty plaintext makes every tag byte individually decisive) */
    for (int v = 0; v < 6 && nfail < 8; v++)
      for (size_t adlen = 0; adlen <= 5; adlen += 5)
        for (size_t mlen = 0; mlen <= 5; mlen++)
          for (int t = 0; t < 8; t++)
            for (int rep = 0; rep < (t == 3 || t == 4 ? 8 : 2); rep++) {
              uint8_t k[32], n[12], ad[8], m[8];
              for (int i = 0; i < 32; i++) k[i] = rbyte(); for (int i = 0; i < 12; i++) n[i] = rbyte();
              for (int i = 0; i < 8; i++) { ad[i] = rbyte(); m[i] = rbyte(); }
              run_case(v, adlen, mlen, rep & 1, k, n, ad, m, 0, 0, t, rnd());
            }
    for (uint32_t it = 0; it < iters && nfail < 8; it++) {
      int v = it % 6; size_t adlen, mlen; uint32_t r = rnd();
      adlen = (r & 7) == 0 ? 0 : (r >> 3) % 41; mlen = ((r >> 12) & 7) == 0 ? 32 + (r >> 15) % 300 : (r >> 15) % 41;
      uint8_t k[32], n[12], *ad = malloc(adlen + 1), *m = malloc(mlen + 1);
      for (int i = 0; i < 32; i++) k[i] = rbyte(); for (int i = 0; i < 12; i++) n[i] = rbyte();
      for (size_t i = 0; i < adlen; i++) ad[i] = rbyte(); for (size_t i = 0; i < mlen; i++) m[i] = rbyte();
      if (mlen && (rnd() & 1)) m[mlen - 1] |= 0x80;
      run_case(v, adlen, mlen, rnd() & 1, k, n, ad, m, rnd() & 7, rnd() & 7, it % 8, rnd());
      free(ad); free(m);
    }
    printf("diff_aead campaign: %u cases x (encrypt, decrypt/tamper), check_tag %u cases, %d failures\n", iters, iters * 4, nfail);
    return nfail ? 1 : 0;
  }
  if (argc >= 11 && !strcmp(argv[1], "case")) {
    int nnn = atoi(argv[2]), prog = atoi(argv[3]); size_t adlen = strtoull(argv[4], 0, 10), mlen = strtoull(argv[5], 0, 10); int inplace = atoi(argv[6]);
    int v = (nnn == 128 ? 0 : nnn == 192 ? 1 : 2) + (prog >= 3 ? 3 : 0);
    uint8_t k[32] = {0}, n[12] = {0}, *ad = calloc(adlen + 64, 1), *in = calloc(mlen + 64, 1);
    rs = 12345; for (size_t i = 0; i < adlen; i++) ad[i] = rbyte(); for (size_t i = 0; i < mlen + 8; i++) in[i] = rbyte();
    parsehex(argv[7], k, 32); parsehex(argv[8], n, 12); parsehex(argv[9], ad, adlen); parsehex(argv[10], in, mlen + 8);
    if (prog == 1 || prog == 3) { for (int t = 0; t < 8; t++) run_case(v, adlen, mlen, inplace, k, n, ad, in, 0, 0, t, 0x12345u * (t + 1)); }
    else {
      /* decrypt counterexample: in = candidate ciphertext || tag */
      unsigned klen = V[v].klen; size_t clen = mlen + 8, ml = 0; uint8_t *refm = malloc(mlen + 1), *buf = malloc(clen + 1), *ob = inplace ? buf : malloc(mlen + 1);
      int rr = V[v].siv ? ref_siv_decrypt(klen, refm, in, clen, ad, adlen, n, k) : ref_aead_decrypt(klen, refm, in, clen, ad, adlen, n, k);
      memcpy(buf, in, clen);
      int r = V[v].dec(ob, &ml, buf, clen, ad, adlen, n, k);
      if (r != rr || ml != mlen || memcmp(ob, refm, mlen)) { nfail++; printf("FAIL %s decrypt: returned %d (specification %d), *mlen=%zu, plaintext %s\n", V[v].name, r, rr, ml, memcmp(ob, refm, mlen) ? "differs" : "equal"); }
      /* and the genuine-packet checks for the same shape */
      for (int t = 0; t < 8; t++) run_case(v, adlen, mlen, inplace, k, n, ad, in, 0, 0, t, 0x54321u * (t + 1));
    }
    printf("diff_aead case: %d failures\n", nfail);
    return nfail ? 1 : 0;
  }
  fprintf(stderr, "usage: diff_aead campaign <seed> <iters> | case <nnn> <prog> <adlen> <mlen> <inplace> <key> <nonce> <ad> <in>\n");
  return 2;
}
