/* Huge-size self-consistency tests of the REAL library (fallback of the thorough tier when an unbounded loop-contract proof
   no longer applies to a restructured loop; never a proof): sizes with bit 31 / bit 32 set, where 32-bit masks, int
   narrowing and 'unsigned' length parameters bite.  No reference model is used (the bit-serial model is far too slow at
   these sizes): encrypt-then-decrypt must round-trip and reject a forged tag with an all-zero buffer; a streamed hash must
   equal the one-shot hash.  Pages are mapped lazily (MAP_NORESERVE) and only sparsely written.
     huge aead <log2: 31|32>      huge hash
   Exit 0 ok, 1 failure (FAIL line), 99 cannot map the buffer (inconclusive). */
#define _GNU_SOURCE
#include <stdio.h>
#include <stdlib.h>
#include <string.h>
#include <stdint.h>
#include <sys/mman.h>
#include "TinyJAMBU.h"
static unsigned char *bigmap(size_t n) { void *p = mmap(0, n, PROT_READ | PROT_WRITE, MAP_PRIVATE | MAP_ANONYMOUS | MAP_NORESERVE, -1, 0); return p == MAP_FAILED ? 0 : p; }
int main(int argc, char **argv)
{
  if (argc >= 3 && !strcmp(argv[1], "aead")) {
    size_t mlen = ((size_t)1 << atoi(argv[2])) + 5, clen = 0, ml = 0;
    unsigned char *buf = bigmap(mlen + 8), k[32], n[12], ad[3] = {1, 2, 3};
    if (!buf) return 99;
    for (int i = 0; i < 32; i++) k[i] = (unsigned char)(i * 7 + 1);
    for (int i = 0; i < 12; i++) n[i] = (unsigned char)(0x80 + i);
    for (size_t i = 0; i < mlen; i += 4096) buf[i] = (unsigned char)(i >> 12);
    buf[mlen - 1] = 0xEE; buf[mlen - 2] = 0x81;
    tinyjambu_128_aead_encrypt(buf, &clen, buf, mlen, ad, 3, n, k);
    if (clen != mlen + 8) { printf("FAIL huge aead: *clen = %zu for mlen = %zu\n", clen, mlen); return 1; }
    int r = tinyjambu_128_aead_decrypt(buf, &ml, buf, clen, ad, 3, n, k);
    if (r != 0 || ml != mlen) { printf("FAIL huge aead: decrypt of a genuine ciphertext of %zu bytes returned %d, *mlen = %zu\n", clen, r, ml); return 1; }
    for (size_t i = 0; i < mlen; i += 4096) if (buf[i] != (unsigned char)(i >> 12)) { printf("FAIL huge aead: plaintext byte %zu wrong after the round trip\n", i); return 1; }
    if (buf[mlen - 1] != 0xEE || buf[mlen - 2] != 0x81) { printf("FAIL huge aead: plaintext tail wrong after the round trip (mlen = %zu)\n", mlen); return 1; }
    /* forged tag: must be rejected and EVERY plaintext byte must be zero afterwards */
    tinyjambu_128_aead_encrypt(buf, &clen, buf, mlen, ad, 3, n, k);
    buf[clen - 1] ^= 1;
    r = tinyjambu_128_aead_decrypt(buf, &ml, buf, clen, ad, 3, n, k);
    if (r != -1) { printf("FAIL huge aead: forged packet of %zu bytes returned %d\n", clen, r); return 1; }
    for (size_t i = 0; i < mlen; i++) if (buf[i]) { printf("FAIL huge aead: rejected packet, plaintext byte %zu of %zu is %02x (C04: unauthenticated plaintext released)\n", i, mlen, buf[i]); return 1; }
    printf("huge aead 2^%s+5: ok\n", argv[2]);
    return 0;
  }
  if (argc >= 2 && !strcmp(argv[1], "hash")) {
    size_t len = ((size_t)1 << 32) + 5;
    unsigned char *buf = bigmap(len), d1[32], d2[32];
    if (!buf) return 99;
    buf[0] = 1; buf[len - 1] = 0x99; buf[(size_t)1 << 31] = 7;
    tinyjambu_hash(d1, buf, len);
    tinyjambu_hash_state_t st; tinyjambu_hash_init(&st);
    size_t pos = 0, piece = ((size_t)1 << 30) + 3;
    while (pos < len) { size_t c = len - pos < piece ? len - pos : piece; tinyjambu_hash_update(&st, buf + pos, c); tinyjambu_hash_update(&st, 0, 0); pos += c; }
    tinyjambu_hash_finalize(&st, d2);
    if (memcmp(d1, d2, 32)) { printf("FAIL huge hash: one-shot digest of a 2^32+5 byte message differs from the digest streamed in 1 GiB+3 byte pieces\n"); return 1; }
    printf("huge hash 2^32+5: ok\n");
    return 0;
  }
  return 2;
}
