/* Huge-size self-consistency tests of the REAL library (fallback of the thorough tier when an unbounded loop-contract proof
   no longer applies to a restructured loop; never a proof): sizes with bit 31 / bit 32 set, where 32-bit masks, int
   narrowing and 'unsigned' length parameters bite.  No reference model is used (the bit-serial model is far too slow at
   these sizes): encrypt-then-decrypt must round-trip and reject a forged tag with an all-zero buffer; a streamed hash must
   equal the one-shot hash.  Pages are mapped lazily (MAP_NORESERVE) and only sparsely written.
     huge aead <log2: 31|32>      huge hash
   Exit 0 ok, 1 failure (FAIL line), 99 cannot map the buffer (inconclusive). */
#define _GNU_SOURCE
#include <stdio.h>
#include <stdlib.h>
#include <string.h>
#include <stdint.h>
#include <sys/mman.h>
#include "TinyJAMBU.h"
static unsigned char *bigmap(size_t n) { void *p = mmap(0, n, PROT_READ | PROT_WRITE, MAP_PRIVATE | MAP_ANONYMOUS | MAP_NORESERVE, -1, 0); return p == MAP_FAILED ? 0 : p; }
int main(int argc, char **argv)
{
  if (argc >= 3 && !strcmp(argv[1], "aead")) {
    size_t mlen = ((size_t)1 << atoi(argv[2])) + 5, clen = 0, ml = 0;
    unsigned char *buf = bigmap(mlen + 8), k[32], n[12], ad[3] = {1, 2, 3};
    if (!buf) return 99;
    for (int i = 0; i < 32; i++) k[i] = (unsigned char)(i * 7 + 1);
    for (int i = 0; i < 12; i++) n[i] = (unsigned char)(0x80 + i);
    for (size_t i = 0; i < mlen; i += 4096) buf[i] = (unsigned char)(i >> 12);
    buf[mlen - 1] = 0xEE; buf[mlen - 2] = 0x81;
    tinyjambu_128_aead_encrypt(buf, &clen, buf, mlen, ad, 3, n, k);
    if (clen != mlen + 8) { printf("FAIL huge aead: *clen = %zu for mlen = %zu\n", clen, mlen); return 1; }
    int r = tinyjambu_128_aead_decrypt(buf, &ml, buf, clen, ad, 3, n, k);
    if (r != 0 || ml != mlen) { printf("FAIL huge aead: decrypt of a genuine ciphertext of %zu bytes returned %d, *mlen = %zu\n", clen, r, ml); return 1; }
    for (size_t i = 0; i < mlen; i += 4096) if (buf[i] != (unsigned char)(i >> 12)) { printf("FAIL huge aead: plaintext byte %zu wrong after the round trip\n", i); return 1; }
    if (buf[mlen - 1] != 0xEE || buf[mlen - 2] != 0x81) { printf("FAIL huge aead: plaintext tail wrong after the round trip (mlen = %zu)\n", mlen); return 1; }
    /* forged tag: must be rejected and EVERY plaintext byte must be zero afterwards */
    tinyjambu_128_aead_encrypt(buf, &clen, buf, mlen, ad, 3, n, k);
    buf[clen - 1] ^= 1;
    r = tinyjambu_128_aead_decrypt(buf, &ml, buf, clen, ad, 3, n, k);
    if (r != -1) { printf("FAIL huge aead: forged packet of %zu bytes returned %d\n", clen, r); return 1; }
    for (size_t i = 0; i < mlen; i++) if (buf[i]) { printf("FAIL huge aead: rejected packet, plaintext byte %zu of %zu is %02x (C04: unauthenticated plaintext released)\n", i, mlen, buf[i]); return 1; }
    printf("huge aead 2^%s+5: ok\n", argv[2]);
    return 0;
  }
  if (argc >= 2 && !strcmp(argv[1], "ad")) {
    /* associated data of 2^32+5 bytes (untouched zero mapping): the tag must cover ALL of it */
    size_t adlen = ((size_t)1 << 32) + 5, cl = 0, ml = 0;
    unsigned char *ad = mmap(0, adlen, PROT_READ, MAP_PRIVATE | MAP_ANONYMOUS | MAP_NORESERVE, -1, 0);
    unsigned char k[32], n[12], m[13], c1[21], c2[21], o[13];
    if (ad == MAP_FAILED) return 99;
    for (int i = 0; i < 32; i++) k[i] = (unsigned char)(0x80 + i);
    for (int i = 0; i < 12; i++) n[i] = (unsigned char)(0xC0 + i);
    for (int i = 0; i < 13; i++) m[i] = (unsigned char)(i * 11);
    for (int siv = 0; siv < 2; siv++) {
      if (siv) { tinyjambu_128_siv_encrypt(c1, &cl, m, 13, ad, adlen, n, k); tinyjambu_128_siv_encrypt(c2, &cl, m, 13, ad, 5, n, k); }
      else { tinyjambu_128_aead_encrypt(c1, &cl, m, 13, ad, adlen, n, k); tinyjambu_128_aead_encrypt(c2, &cl, m, 13, ad, 5, n, k); }
      if (!memcmp(c1 + 13, c2 + 13, 8)) { printf("FAIL huge ad: %s tag for 2^32+5 bytes of associated data equals the tag for its first 5 bytes\n", siv ? "SIV" : "AEAD"); return 1; }
      int r = siv ? tinyjambu_128_siv_decrypt(o, &ml, c1, 21, ad, 5, n, k) : tinyjambu_128_aead_decrypt(o, &ml, c1, 21, ad, 5, n, k);
      if (r != -1) { printf("FAIL huge ad: %s packet sealed with 2^32+5 bytes of associated data opens with a 5-byte prefix of it (result %d)\n", siv ? "SIV" : "AEAD", r); return 1; }
    }
    printf("huge ad 2^32+5: ok\n");
    return 0;
  }
  if (argc >= 2 && !strcmp(argv[1], "hash")) {
    size_t len = ((size_t)1 << 32) + 5;
    unsigned char *buf = bigmap(len), d1[32], d2[32];
    if (!buf) return 99;
    buf[0] = 1; buf[len - 1] = 0x99; buf[(size_t)1 << 31] = 7;
    tinyjambu_hash(d1, buf, len);
    tinyjambu_hash_state_t st; tinyjambu_hash_init(&st);
    size_t pos = 0, piece = ((size_t)1 << 30) + 3;
    while (pos < len) { size_t c = len - pos < piece ? len - pos : piece; tinyjambu_hash_update(&st, buf + pos, c); tinyjambu_hash_update(&st, 0, 0); pos += c; }
    tinyjambu_hash_finalize(&st, d2);
    if (memcmp(d1, d2, 32)) { printf("FAIL huge hash: one-shot digest of a 2^32+5 byte message differs from the digest streamed in 1 GiB+3 byte pieces\n"); return 1; }
    /* a partial block pending, then one update of 2^32+3 bytes */
    tinyjambu_hash_init(&st); tinyjambu_hash_update(&st, (const unsigned char *)"hello", 5); tinyjambu_hash_update(&st, buf, len - 2); tinyjambu_hash_finalize(&st, d1);
    tinyjambu_hash_init(&st); tinyjambu_hash_update(&st, (const unsigned char *)"hello", 5);
    pos = 0; while (pos < len - 2) { size_t c = len - 2 - pos < piece ? len - 2 - pos : piece; tinyjambu_hash_update(&st, buf + pos, c); pos += c; }
    tinyjambu_hash_finalize(&st, d2);
    if (memcmp(d1, d2, 32)) { printf("FAIL huge hash: update(5 bytes) then ONE update of 2^32+3 bytes differs from the same bytes streamed in 1 GiB+3 byte pieces\n"); return 1; }
    printf("huge hash 2^32+5: ok\n");
    return 0;
  }
  return 2;
}
