/* F2 demonstration on the real code, no state poking: 2^32 - 1 consecutive feeds wrap the 32-bit reseed counter to 0;
   the next generate then emits a block WITHOUT an entropy request although far more than the limit was "used". */
#include "TinyJAMBU.h"
#include <stdio.h>
#include <stdint.h>
static unsigned calls;
static size_t cb(void *u, unsigned char *buf, size_t size) { (void)u; for (size_t i = 0; i < size; i++) buf[i] = (unsigned char)(i + calls); calls++; return size; }
int main(void)
{
  tinyjambu_prng_state_t st; unsigned char o[32];
  tinyjambu_prng_init_user(&st, cb, 0, 0, 0);
  for (uint64_t i = 0; i < 0xFFFFFFFFull; i++) { tinyjambu_prng_feed(&st, 0, 0); if ((i & 0x0FFFFFFF) == 0) { fprintf(stderr, "%llu feeds\n", (unsigned long long)i); } }
  unsigned c0 = calls;
  tinyjambu_prng_generate(&st, o, 32);
  printf("entropy requests before the block after 2^32-1 feeds: %u (expected >= 1)\n", calls - c0);
  return calls == c0 ? 1 : 0;
}
