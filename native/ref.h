/* Native reference model of every algorithm in the library, written from the specifications
   (TinyJAMBU v2; README SIV construction; tools/hashref/README.md MDPH; RFC 2104; RFC 5869; RFC 8018; SP 800-90A Hash_DRBG
   in the documented per-block variant) on top of the bit-serial NLFSR (spec/nlfsr.h) and the per-block transition
   function spec/tick.h that the CBMC monitor uses.  No code of /repo is included here.
   Used for: oracle validation against /repo/test/kat, native replay of CBMC counterexamples, fallback differential
   campaigns when a proof's scaffolding no longer matches the code. */
#ifndef TJV_REF_H
#define TJV_REF_H
#include <stddef.h>
#include <stdint.h>
#include <string.h>
#include "nlfsr.h"
#include "tick.h"

typedef struct { uint32_t s[4]; uint8_t key[32]; unsigned klen; } ref_st;

static void ref_perm(ref_st *st, unsigned steps) { tjv_nlfsr(st->s, st->key, st->klen, steps); }
static unsigned ref_long(const ref_st *st) { return st->klen == 128 ? 1024 : (st->klen == 192 ? 1152 : 1280); }

static void ref_setup(ref_st *st, const uint8_t *k, unsigned klen, const uint8_t nonce[12], uint8_t dom)
{
  memcpy(st->key, k, klen / 8); st->klen = klen;
  st->s[0] = st->s[1] = st->s[2] = st->s[3] = 0;
  ref_perm(st, ref_long(st));
  for (int i = 0; i < 3; i++) { st->s[1] ^= dom; ref_perm(st, 640); st->s[3] ^= tjv_ld(nonce + 4 * i, 4); }
}
static void ref_stream(ref_st *st, int mode, uint8_t dom, unsigned steps, const uint8_t *in, size_t len, uint8_t *out)
{
  size_t pos = 0;
  while (pos < len) {
    uint32_t p[4]; struct tjv_out o = {0, 0, 0};
    st->s[1] ^= dom; ref_perm(st, steps);
    p[0] = st->s[0]; p[1] = st->s[1]; p[2] = st->s[2]; p[3] = st->s[3];
    size_t n = len - pos; if (n > 4) n = 4;
    if (out) for (size_t j = 0; j < n; j++) { o.gidx = pos + j; o.gout_set = 0; uint32_t c2[4]; tjv_stream_post(c2, p, mode, in, len, pos, &o); out[pos + j] = o.gout; }
    pos += tjv_stream_post(st->s, p, mode, in, len, pos, 0);
  }
}
static void ref_tag(ref_st *st, uint8_t tag[8])
{
  st->s[1] ^= 0x70; ref_perm(st, ref_long(st));
  for (int i = 0; i < 4; i++) tag[i] = (uint8_t)(st->s[2] >> (8 * i));
  st->s[1] ^= 0x70; ref_perm(st, 640);
  for (int i = 0; i < 4; i++) tag[4 + i] = (uint8_t)(st->s[2] >> (8 * i));
}
/* c must not alias m in the reference (callers pass separate buffers) */
static void ref_aead_encrypt(unsigned klen, uint8_t *c, const uint8_t *m, size_t mlen, const uint8_t *ad, size_t adlen,
                             const uint8_t *npub, const uint8_t *k)
{
  ref_st st; ref_setup(&st, k, klen, npub, 0x10);
  ref_stream(&st, MD_ABS, 0x30, 640, ad, adlen, 0);
  ref_stream(&st, MD_ENC, 0x50, ref_long(&st), m, mlen, c);
  ref_tag(&st, c + mlen);
}
static int ref_aead_decrypt(unsigned klen, uint8_t *m, const uint8_t *c, size_t clen, const uint8_t *ad, size_t adlen,
                            const uint8_t *npub, const uint8_t *k)
{
  if (clen < 8) return -1;
  ref_st st; uint8_t tag[8]; size_t mlen = clen - 8;
  ref_setup(&st, k, klen, npub, 0x10);
  ref_stream(&st, MD_ABS, 0x30, 640, ad, adlen, 0);
  ref_stream(&st, MD_DEC, 0x50, ref_long(&st), c, mlen, m);
  ref_tag(&st, tag);
  if (memcmp(tag, c + mlen, 8) != 0) { memset(m, 0, mlen); return -1; }
  return 0;
}
static void ref_siv_tag(unsigned klen, uint8_t tag[8], const uint8_t *m, size_t mlen, const uint8_t *ad, size_t adlen,
                        const uint8_t *npub, const uint8_t *k)
{
  ref_st st; ref_setup(&st, k, klen, npub, 0x90);
  ref_stream(&st, MD_ABS, 0x30, 640, ad, adlen, 0);
  ref_stream(&st, MD_ABS, 0x50, ref_long(&st), m, mlen, 0);
  ref_tag(&st, tag);
}
static void ref_siv_ks(unsigned klen, uint8_t *out, const uint8_t *in, size_t len, const uint8_t tag[8], const uint8_t *npub, const uint8_t *k)
{
  ref_st st; uint8_t n2[12];
  memcpy(n2, npub, 4); memcpy(n2 + 4, tag, 8);
  ref_setup(&st, k, klen, n2, 0xB0);
  ref_stream(&st, MD_KS, 0xD0, ref_long(&st), in, len, out);
}
static void ref_siv_encrypt(unsigned klen, uint8_t *c, const uint8_t *m, size_t mlen, const uint8_t *ad, size_t adlen,
                            const uint8_t *npub, const uint8_t *k)
{
  ref_siv_tag(klen, c + mlen, m, mlen, ad, adlen, npub, k);
  ref_siv_ks(klen, c, m, mlen, c + mlen, npub, k);
}
static int ref_siv_decrypt(unsigned klen, uint8_t *m, const uint8_t *c, size_t clen, const uint8_t *ad, size_t adlen,
                           const uint8_t *npub, const uint8_t *k)
{
  if (clen < 8) return -1;
  size_t mlen = clen - 8; uint8_t tag[8];
  ref_siv_ks(klen, m, c, mlen, c + mlen, npub, k);
  ref_siv_tag(klen, tag, m, mlen, ad, adlen, npub, k);
  if (memcmp(tag, c + mlen, 8) != 0) { memset(m, 0, mlen); return -1; }
  return 0;
}

/* ---------------------------------------------------------------- TinyJAMBU-Hash: MDPH, tools/hashref/README.md */
typedef struct { uint32_t L[4], R[4]; uint8_t buf[16]; unsigned n; } ref_hash_t;
static void ref_compress(ref_hash_t *h, const uint8_t blk[16], uint32_t dom)
{
  uint8_t key[32]; uint32_t P[4], o1[4], o2[4];
  for (int i = 0; i < 4; i++) for (int j = 0; j < 4; j++) key[4 * i + j] = (uint8_t)(h->R[i] >> (8 * j));
  memcpy(key + 16, blk, 16);
  for (int i = 0; i < 4; i++) P[i] = h->L[i];
  P[0] ^= dom;
  memcpy(o1, P, 16); tjv_nlfsr(o1, key, 256, 2560);
  memcpy(o2, P, 16); o2[0] ^= 1; tjv_nlfsr(o2, key, 256, 2560);
  for (int i = 0; i < 4; i++) { h->L[i] = o1[i] ^ P[i]; h->R[i] = o2[i] ^ P[i] ^ (i == 0 ? 1u : 0u); }
}
static void ref_hash_init(ref_hash_t *h) { memset(h, 0, sizeof(*h)); }
static void ref_hash_update(ref_hash_t *h, const uint8_t *in, size_t len)
{
  for (size_t i = 0; i < len; i++) { h->buf[h->n++] = in[i]; if (h->n == 16) { ref_compress(h, h->buf, 0); h->n = 0; } }
}
static void ref_hash_final(ref_hash_t *h, uint8_t out[32])
{
  uint8_t blk[16]; memset(blk, 0, 16); memcpy(blk, h->buf, h->n); blk[h->n] = 0x01;
  ref_compress(h, blk, 2);
  for (int i = 0; i < 4; i++) for (int j = 0; j < 4; j++) { out[4 * i + j] = (uint8_t)(h->L[i] >> (8 * j)); out[16 + 4 * i + j] = (uint8_t)(h->R[i] >> (8 * j)); }
}
static void ref_hash(uint8_t out[32], const uint8_t *in, size_t len) { ref_hash_t h; ref_hash_init(&h); ref_hash_update(&h, in, len); ref_hash_final(&h, out); }

/* ---------------------------------------------------------------- RFC 2104, block size 64 */
typedef struct { ref_hash_t in; uint8_t k0[64]; } ref_hmac_t;
static void ref_hmac_init(ref_hmac_t *s, const uint8_t *key, size_t keylen)
{
  uint8_t pad[64];
  memset(s->k0, 0, 64);
  if (keylen > 64) ref_hash(s->k0, key, keylen); else memcpy(s->k0, key, keylen);
  for (int i = 0; i < 64; i++) pad[i] = s->k0[i] ^ 0x36;
  ref_hash_init(&s->in); ref_hash_update(&s->in, pad, 64);
}
static void ref_hmac_update(ref_hmac_t *s, const uint8_t *in, size_t len) { ref_hash_update(&s->in, in, len); }
static void ref_hmac_final(ref_hmac_t *s, uint8_t out[32])
{
  uint8_t inner[32], pad[64]; ref_hash_t o;
  ref_hash_final(&s->in, inner);
  for (int i = 0; i < 64; i++) pad[i] = s->k0[i] ^ 0x5c;
  ref_hash_init(&o); ref_hash_update(&o, pad, 64); ref_hash_update(&o, inner, 32); ref_hash_final(&o, out);
}
static void ref_hmac(uint8_t out[32], const uint8_t *key, size_t keylen, const uint8_t *in, size_t len)
{ ref_hmac_t s; ref_hmac_init(&s, key, keylen); ref_hmac_update(&s, in, len); ref_hmac_final(&s, out); }

/* ---------------------------------------------------------------- RFC 5869 */
static void ref_hkdf_extract(uint8_t prk[32], const uint8_t *key, size_t keylen, const uint8_t *salt, size_t saltlen)
{
  uint8_t z[32]; memset(z, 0, 32);
  if (saltlen == 0) { salt = z; saltlen = 32; }
  ref_hmac(prk, salt, saltlen, key, keylen);
}
/* block n (1..255) of OKM into T; Tprev = T(n-1) (ignored for n == 1) */
static void ref_hkdf_block(uint8_t T[32], const uint8_t prk[32], const uint8_t Tprev[32], const uint8_t *info, size_t infolen, unsigned n)
{
  ref_hmac_t s; uint8_t c = (uint8_t)n;
  ref_hmac_init(&s, prk, 32);
  if (n != 1) ref_hmac_update(&s, Tprev, 32);
  ref_hmac_update(&s, info, infolen); ref_hmac_update(&s, &c, 1); ref_hmac_final(&s, T);
}
/* returns 0, or -1 if outlen > 8160 (nothing written) */
static int ref_hkdf(uint8_t *out, size_t outlen, const uint8_t *key, size_t keylen, const uint8_t *salt, size_t saltlen,
                    const uint8_t *info, size_t infolen)
{
  uint8_t prk[32], T[32], Tp[32];
  if (outlen > 8160) return -1;
  ref_hkdf_extract(prk, key, keylen, salt, saltlen);
  for (unsigned n = 1; outlen > 0; n++) {
    ref_hkdf_block(T, prk, Tp, info, infolen, n); memcpy(Tp, T, 32);
    size_t l = outlen < 32 ? outlen : 32; memcpy(out, T, l); out += l; outlen -= l;
  }
  return 0;
}

/* ---------------------------------------------------------------- RFC 8018 PBKDF2 */
static void ref_pbkdf2(uint8_t *out, size_t outlen, const uint8_t *pw, size_t pwlen, const uint8_t *salt, size_t saltlen, unsigned long count)
{
  if (count == 0) count = 1;
  for (uint32_t i = 1; outlen > 0; i++) {
    uint8_t U[32], T[32], be[4] = { (uint8_t)(i >> 24), (uint8_t)(i >> 16), (uint8_t)(i >> 8), (uint8_t)i };
    ref_hmac_t s; ref_hmac_init(&s, pw, pwlen); ref_hmac_update(&s, salt, saltlen); ref_hmac_update(&s, be, 4); ref_hmac_final(&s, U);
    memcpy(T, U, 32);
    for (unsigned long c = 1; c < count; c++) { uint8_t U2[32]; ref_hmac(U2, pw, pwlen, U, 32); memcpy(U, U2, 32); for (int j = 0; j < 32; j++) T[j] ^= U[j]; }
    size_t l = outlen < 32 ? outlen : 32; memcpy(out, T, l); out += l; outlen -= l;
  }
}

/* ---------------------------------------------------------------- Hash_DRBG (SP 800-90A 10.1.1), documented variant */
typedef struct { uint8_t V[32], C[32]; uint32_t counter, limit; } ref_drbg_t;
/* Hash_df with counter = 1, 256 bits: H(01 || 00000100 || input) */
static void ref_hash_df(uint8_t out[32], const uint8_t *a, size_t al, const uint8_t *b, size_t bl, const uint8_t *c, size_t cl)
{
  static const uint8_t hdr[5] = {1, 0, 0, 1, 0};
  ref_hash_t h; ref_hash_init(&h); ref_hash_update(&h, hdr, 5);
  ref_hash_update(&h, a, al); ref_hash_update(&h, b, bl); ref_hash_update(&h, c, cl); ref_hash_final(&h, out);
}
static void ref_drbg_setC(ref_drbg_t *d) { uint8_t z = 0; ref_hash_df(d->C, &z, 1, d->V, 32, 0, 0); }
/* E = 32-byte entropy buffer as the library sees it (zero-initialised, first `delivered` bytes written by the source) */
static void ref_drbg_init(ref_drbg_t *d, const uint8_t E[32], const uint8_t *custom, size_t clen)
{ ref_hash_df(d->V, E, 32, custom, clen, 0, 0); ref_drbg_setC(d); d->counter = 1; d->limit = 32; }
static void ref_drbg_feed(ref_drbg_t *d, const uint8_t *data, size_t len)
{ uint8_t one = 1, V2[32]; ref_hash_df(V2, &one, 1, d->V, 32, data, len); memcpy(d->V, V2, 32); ref_drbg_setC(d); d->counter++; }
/* E = copy of V with the first `delivered` bytes replaced by the delivered entropy */
static void ref_drbg_reseed(ref_drbg_t *d, const uint8_t E[32])
{ uint8_t one = 1, V2[32]; ref_hash_df(V2, &one, 1, d->V, 32, E, 32); memcpy(d->V, V2, 32); ref_drbg_setC(d); d->counter = 1; }
static void ref_drbg_block(ref_drbg_t *d, uint8_t out[32])
{
  uint8_t H[32], three = 3; ref_hash_t h; uint32_t carry = d->counter;
  ref_hash(out, d->V, 32);
  ref_hash_init(&h); ref_hash_update(&h, &three, 1); ref_hash_update(&h, d->V, 32); ref_hash_final(&h, H);
  for (int i = 31; i >= 0; i--) { carry += d->V[i]; carry += H[i]; carry += d->C[i]; d->V[i] = (uint8_t)carry; carry >>= 8; }
  d->counter++;
}
static void ref_drbg_set_limit(ref_drbg_t *d, size_t bytes)
{ if (bytes > 1048576) bytes = 1048576; size_t b = (bytes + 31) / 32; if (b == 0) b = 1; d->limit = (uint32_t)b; }
#endif
