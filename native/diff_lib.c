/* Native differential checks of the REAL library (compiled from /repo's working tree) against the reference model
   (native/ref.h) for hash, HMAC, HKDF, PBKDF2, PRNG, clean and the free functions.
     diff_lib <what> <seed> <iterations>      what = hash | hmac | hkdf | pbkdf2 | prng | clean | free | all
   Replay of CBMC counterexamples and fallback decision procedure when proof scaffolding no longer matches (never a proof).
   Exit 0: no difference, 1: difference (FAIL lines). */
#include <stdio.h>
#include <stdlib.h>
#include "TinyJAMBU.h"
#include "ref.h"
void tinyjambu_clean(void *buf, unsigned size);

static uint64_t rs;
static uint32_t rnd(void) { rs ^= rs << 13; rs ^= rs >> 7; rs ^= rs << 17; return (uint32_t)(rs >> 16); }
static uint8_t rbyte(void) { uint32_t r = rnd(); return (r & 3) == 0 ? (uint8_t)(0x80 | (r >> 8)) : (uint8_t)(r >> 8); }
static void fill(uint8_t *p, size_t n) { for (size_t i = 0; i < n; i++) p[i] = rbyte(); }
static int nfail;
static void hexs(const char *l, const uint8_t *p, size_t n) { printf(" %s=", l); for (size_t i = 0; i < n && i < 40; i++) printf("%02x", p[i]); if (n > 40) printf(".."); }
static const size_t LENS[] = {0, 1, 2, 3, 5, 15, 16, 17, 31, 32, 33, 47, 48, 63, 64, 65, 66, 80, 100, 129, 200, 255, 256, 257, 1000};
#define NLENS (sizeof(LENS) / sizeof(LENS[0]))
static size_t rlen(void) { uint32_t r = rnd(); return (r & 1) ? LENS[(r >> 1) % NLENS] : (r >> 1) % 70; }

/* ------------------------------------------------------------------ hash (C10, C11) */
static void t_hash(uint32_t iters)
{
  for (uint32_t it = 0; it < iters && nfail < 6; it++) {
    size_t len = rlen(); unsigned off = rnd() & 7;
    uint8_t *ar = malloc(len + 16), *m = ar + off, d1[32], d2[32], d3[32];
    fill(m, len);
    ref_hash(d1, m, len);
    tinyjambu_hash(d2, m, len);
    if (memcmp(d1, d2, 32)) { nfail++; printf("FAIL hash: one-shot digest differs from the MDPH specification | len=%zu align=%u", len, off); hexs("msg", m, len); printf("\n"); free(ar); continue; }
    /* streaming: random split, state object with dirty prior contents / prior history, empty and NULL updates in between */
    tinyjambu_hash_state_t st, other;
    memset(&st, rnd(), sizeof st);
    int hist = rnd() % 4;
    if (hist == 1) { tinyjambu_hash_init(&st); tinyjambu_hash_update(&st, m, len < 21 ? len : 21); }
    if (hist == 2) { tinyjambu_hash_init(&st); tinyjambu_hash_update(&st, m, len); tinyjambu_hash_finalize(&st, d3); }
    if (hist == 3) { tinyjambu_hash_init(&st); tinyjambu_hash_update(&st, m, len < 5 ? len : 5); tinyjambu_hash_free(&st); }
    if (rnd() & 1) tinyjambu_hash_init(&st); else tinyjambu_hash_reinit(&st);
    tinyjambu_hash_init(&other); tinyjambu_hash_update(&other, (const uint8_t *)"xyz", 3);
    size_t pos = 0; char split[200]; int sp = 0; split[0] = 0;
    while (pos < len) {
      size_t c = (rnd() & 3) == 0 ? rnd() % 40 : rnd() % 9; if (c > len - pos) c = len - pos;
      if ((rnd() & 7) == 0) tinyjambu_hash_update(&st, 0, 0);
      tinyjambu_hash_update(&st, m + pos, c); pos += c;
      if (sp < 180) sp += sprintf(split + sp, "%zu,", c);
      tinyjambu_hash_update(&other, m, len < 3 ? len : 3);
    }
    tinyjambu_hash_finalize(&st, d3);
    if (memcmp(d1, d3, 32)) { nfail++; printf("FAIL hash: streamed digest differs from one-shot | len=%zu split=%s prior-history=%d", len, split, hist); hexs("msg", m, len); printf("\n"); }
    free(ar);
  }
}
/* ------------------------------------------------------------------ HMAC (C12) */
static void t_hmac(uint32_t iters)
{
  for (uint32_t it = 0; it < iters && nfail < 6; it++) {
    size_t kl = (it < 140) ? it : rlen(), ml = rlen(); if (ml > 300) ml = 300;
    uint8_t *k = malloc(kl + 1), *m = malloc(ml + 1), r1[32], r2[32], r3[32];
    fill(k, kl); fill(m, ml);
    ref_hmac(r1, k, kl, m, ml);
    tinyjambu_hmac(r2, k, kl, m, ml);
    tinyjambu_hmac_state_t st; memset(&st, rnd(), sizeof st);
    tinyjambu_hmac_init(&st, k, kl);
    if (rnd() & 1) { tinyjambu_hmac_update(&st, m, ml / 2); tinyjambu_hmac_reinit(&st, k, kl); }   /* reinit after a prefix */
    size_t pos = 0; while (pos < ml) { size_t c = 1 + rnd() % 20; if (c > ml - pos) c = ml - pos; tinyjambu_hmac_update(&st, m + pos, c); pos += c; }
    tinyjambu_hmac_finalize(&st, k, kl, r3);
    if (memcmp(r1, r2, 32)) { nfail++; printf("FAIL hmac: one-shot value differs from RFC 2104 | keylen=%zu msglen=%zu", kl, ml); hexs("key", k, kl); printf("\n"); }
    else if (memcmp(r1, r3, 32)) { nfail++; printf("FAIL hmac: init/update/finalize value differs from RFC 2104 | keylen=%zu msglen=%zu\n", kl, ml); }
    free(k); free(m);
  }
}
/* ------------------------------------------------------------------ HKDF (C13) */
static void t_hkdf(uint32_t iters)
{
  static uint8_t out[9000], ref[9000];
  for (uint32_t it = 0; it < iters && nfail < 6; it++) {
    size_t kl = rlen() % 130, sl = (rnd() & 3) == 0 ? 0 : rlen() % 130, il = rlen() % 60;
    size_t ol = (it % 8 == 0) ? 8100 + rnd() % 200 : ((it % 8 == 1) ? 8160 : rnd() % 200);
    uint8_t k[130], s[130], info[60]; fill(k, kl); fill(s, sl); fill(info, il);
    memset(out, 0xAB, sizeof out);
    int rr = ref_hkdf(ref, ol, k, kl, s, sl, info, il);
    int r = tinyjambu_hkdf(out, ol, k, kl, sl ? s : 0, sl, info, il);
    if (r != rr) { nfail++; printf("FAIL hkdf: one-shot with outlen=%zu returned %d, RFC 5869 / cap says %d\n", ol, r, rr); continue; }
    if (rr == 0 && memcmp(out, ref, ol)) { nfail++; printf("FAIL hkdf: one-shot output differs from RFC 5869 | outlen=%zu keylen=%zu saltlen=%zu infolen=%zu\n", ol, kl, sl, il); continue; }
    if (rr != 0) { int w = 0; for (size_t i = 0; i < sizeof out; i++) w |= (out[i] != 0xAB); if (w) { nfail++; printf("FAIL hkdf: refused one-shot call (outlen=%zu) wrote to the output buffer\n", ol); continue; } }
    for (size_t i = ol; i < sizeof out && rr == 0; i++) if (out[i] != 0xAB) { nfail++; printf("FAIL hkdf: wrote past outlen=%zu\n", ol); break; }
    /* incremental: any partition; concatenation == one-shot; beyond 8160 -> -1 and zero fill */
    tinyjambu_hkdf_state_t st; memset(&st, rnd(), sizeof st);
    tinyjambu_hkdf_extract(&st, k, kl, sl ? s : 0, sl);
    size_t total = (it % 4 == 0) ? 8160 + rnd() % 100 : rnd() % 300, pos = 0; int bad = 0;
    ref_hkdf(ref, total > 8160 ? 8160 : total, k, kl, s, sl, info, il);
    memset(out, 0xCD, sizeof out);
    char split[120]; int sp = 0; split[0] = 0;
    while (pos < total && !bad) {
      size_t c = (rnd() & 3) == 0 ? 32 * (1 + rnd() % 3) : rnd() % 70; if (total > 400 && (rnd() & 1)) c = 1000 + rnd() % 4000; if (c > total - pos) c = total - pos;
      int r2 = tinyjambu_hkdf_expand(&st, info, il, out + pos, c);
      int want = (pos + c > 8160) ? -1 : 0;
      if (sp < 100) sp += sprintf(split + sp, "%zu,", c);
      if (r2 != want) { bad = 1; nfail++; printf("FAIL hkdf: expand call covering bytes %zu..%zu returned %d, expected %d | partition=%s\n", pos, pos + c, r2, want, split); }
      pos += c;
    }
    for (size_t i = 0; i < total && !bad; i++) {
      uint8_t want = i < 8160 ? ref[i] : 0;
      if (out[i] != want) { bad = 1; nfail++; printf("FAIL hkdf: incremental output byte %zu is %02x, RFC 5869%s says %02x | partition=%s total=%zu\n", i, out[i], i < 8160 ? "" : " cap (zero fill)", want, split, total); }
    }
  }
}
/* ------------------------------------------------------------------ PBKDF2 (C14) */
static void t_pbkdf2(uint32_t iters)
{
  static uint8_t out[9000], ref[9000];
  for (uint32_t it = 0; it < iters && nfail < 6; it++) {
    size_t pl = (it < 70) ? it : rlen() % 130, sl = rlen() % 50, ol = (it % 16 == 5) ? 8160 + rnd() % 300 : rnd() % 110;
    unsigned long count = (it % 16 == 5) ? 1 : rnd() % 5;
    uint8_t p[130], s[50]; fill(p, pl); fill(s, sl);
    memset(out, 0xAB, sizeof out);
    ref_pbkdf2(ref, ol, p, pl, s, sl, count);
    tinyjambu_pbkdf2(out, ol, p, pl, s, sl, count);
    if (memcmp(out, ref, ol)) { size_t i = 0; while (out[i] == ref[i]) i++; nfail++; printf("FAIL pbkdf2: output byte %zu (block %zu) differs from RFC 8018 | passwordlen=%zu saltlen=%zu count=%lu outlen=%zu\n", i, i / 32 + 1, pl, sl, count, ol); continue; }
    for (size_t i = ol; i < sizeof out; i++) if (out[i] != 0xAB) { nfail++; printf("FAIL pbkdf2: wrote past outlen=%zu\n", ol); break; }
  }
}
/* ------------------------------------------------------------------ PRNG (C15, C16, C17) */
static struct { uint8_t stream[1 << 16]; size_t pos; unsigned calls; size_t deliver[64]; unsigned ndel; size_t since; size_t maxsince; } E;
static size_t cb(void *u, unsigned char *buf, size_t size)
{
  (void)u; size_t n = E.calls < E.ndel ? E.deliver[E.calls] : 32;
  E.calls++; if (E.since > E.maxsince) E.maxsince = E.since; E.since = 0;
  size_t w = n < size ? n : size;
  for (size_t i = 0; i < w; i++) buf[i] = E.stream[(E.pos++) & 0xFFFF];
  return n;
}
static void model_request(ref_drbg_t *d, int init, const uint8_t *custom, size_t cl, unsigned idx, size_t *mpos, int *status)
{
  size_t n = idx < E.ndel ? E.deliver[idx] : 32, w = n < 32 ? n : 32; uint8_t buf[32];
  if (init) memset(buf, 0, 32); else memcpy(buf, d->V, 32);
  for (size_t i = 0; i < w; i++) buf[i] = E.stream[((*mpos)++) & 0xFFFF];
  if (init) ref_drbg_init(d, buf, custom, cl); else ref_drbg_reseed(d, buf);
  *status = (n == 32);
}
static void t_prng(uint32_t iters)
{
  static uint8_t out[70000], ref[70000];
  for (uint32_t it = 0; it < iters && nfail < 6; it++) {
    fill(E.stream, 4096); for (size_t i = 4096; i < sizeof E.stream; i++) E.stream[i] = (uint8_t)(i * 7 + it);
    E.pos = 0; E.calls = 0; E.since = 0; E.maxsince = 0; E.ndel = 16;
    for (unsigned i = 0; i < 16; i++) { uint32_t r = rnd() % 8; E.deliver[i] = r == 0 ? 0 : r == 1 ? rnd() % 32 : r == 2 ? 33 + rnd() % 10 : 32; }
    uint8_t custom[40]; size_t cl = rnd() % 40; fill(custom, cl);
    tinyjambu_prng_state_t st; memset(&st, rnd(), sizeof st);
    ref_drbg_t d; size_t mpos = 0; unsigned midx = 0; int ms, bad = 0; size_t L = 1024;
    int s = tinyjambu_prng_init_user(&st, cb, 0, cl ? custom : 0, cl);
    model_request(&d, 1, custom, cl, midx++, &mpos, &ms);
    if (s != ms) { nfail++; printf("FAIL prng: init_user returned %d but the source delivered %zu bytes (C17)\n", s, E.deliver[0]); continue; }
    char hist[300]; int hp = 0; hist[0] = 0;
    for (int op = 0; op < 14 && !bad; op++) {
      int what = rnd() % 8;
      if (what <= 3) {
        size_t n = (what == 0) ? rnd() % 40 : (what == 1) ? 32 * (rnd() % 6) : (what == 2 ? 900 + rnd() % 600 : rnd() % 200);
        if (it % 9 == 0 && what == 2) n = 40000;
        if (hp < 270) hp += sprintf(hist + hp, "gen%zu ", n);
        memset(out, 0xAB, n + 8);
        unsigned c0 = E.calls;
        tinyjambu_prng_generate(&st, out, n);
        size_t p = 0;
        while (p < n) {
          if (d.counter > d.limit) model_request(&d, 0, 0, 0, midx++, &mpos, &ms);
          uint8_t blk[32]; ref_drbg_block(&d, blk); size_t l = n - p < 32 ? n - p : 32; memcpy(ref + p, blk, l); p += l;
        }
        if (memcmp(out, ref, n)) { size_t i = 0; while (out[i] == ref[i]) i++; bad = 1; nfail++; printf("FAIL prng: generate output byte %zu (block %zu) differs from the documented Hash_DRBG (C15) | history: init(custom %zu) %s\n", i, i / 32, cl, hist); }
        else if (E.calls != midx) { bad = 1; nfail++; printf("FAIL prng: %u entropy requests made, the documented DRBG makes %u (C15/C16) | history: %s\n", E.calls - c0, midx, hist); }
        for (size_t i = n; i < n + 8 && !bad; i++) if (out[i] != 0xAB) { bad = 1; nfail++; printf("FAIL prng: generate wrote past size=%zu\n", n); }
        /* C16: bytes emitted since the last entropy request */
        { size_t q = 0; size_t since = E.since; (void)q; E.since = since; }
      } else if (what == 4) {
        size_t n = rnd() % 50; uint8_t data[50]; fill(data, n);
        if (hp < 270) hp += sprintf(hist + hp, "feed%zu ", n);
        tinyjambu_prng_feed(&st, n ? data : 0, n); ref_drbg_feed(&d, data, n);
      } else if (what == 5) {
        if (hp < 270) hp += sprintf(hist + hp, "reseed(%zu) ", midx < 16 ? E.deliver[midx] : (size_t)32);
        int r = tinyjambu_prng_reseed(&st); model_request(&d, 0, 0, 0, midx++, &mpos, &ms);
        if (r != ms) { bad = 1; nfail++; printf("FAIL prng: reseed returned %d but the source delivered %zu bytes (C17) | history: %s\n", r, E.deliver[midx - 1], hist); }
      } else {
        static const size_t LIM[] = {0, 1, 31, 32, 33, 64, 100, 1024, 5000, 1048576, 1048577, 2097152, (size_t)-1};
        L = LIM[rnd() % 13];
        if (hp < 270) hp += sprintf(hist + hp, "limit%zu ", L);
        tinyjambu_prng_set_reseed_limit(&st, L); ref_drbg_set_limit(&d, L);
      }
    }
    tinyjambu_prng_free(&st);
  }
  /* C17: no callback = system source, usable afterwards (explicit and automatic reseeds must not crash) */
  {
    tinyjambu_prng_state_t st; uint8_t o1[64], o2[64];
    int r = tinyjambu_prng_init_user(&st, 0, 0, (const uint8_t *)"abc", 3);
    tinyjambu_prng_generate(&st, o1, 64);
    int r2 = tinyjambu_prng_reseed(&st);
    tinyjambu_prng_set_reseed_limit(&st, 0);
    tinyjambu_prng_generate(&st, o2, 64);
    if (r != 1 || r2 != 1 || !memcmp(o1, o2, 64)) { nfail++; printf("FAIL prng: init_user(NULL callback) / reseed on the system source: status %d/%d (C17)\n", r, r2); }
    tinyjambu_prng_free(&st);
  }
  /* C16/C15: feeding only brings the next reseed closer - after 70000 feeds the next block must be preceded by an entropy request */
  static const int NF[] = {255, 256, 65535, 65536, 70000};
  for (int q = 0; q < 5; q++) {
    tinyjambu_prng_state_t st; uint8_t o[32]; E.ndel = 0; E.calls = 0; E.pos = 0;
    tinyjambu_prng_init_user(&st, cb, 0, 0, 0);
    for (int i = 0; i < NF[q]; i++) tinyjambu_prng_feed(&st, (const uint8_t *)"x", 1);
    unsigned c0 = E.calls; tinyjambu_prng_generate(&st, o, 32);
    if (E.calls == c0) { nfail++; printf("FAIL prng: no entropy request before the block generated after %d feeds (reseed counter lost) (C15/C16)\n", NF[q]); }
  }
  /* C16 budget, directly: bytes between consecutive entropy requests never exceed the rounded limit */
  static const size_t LIM2[] = {0, 1, 32, 33, 100, 1024, 4096, 1048576, 2097152, (size_t)-1};
  for (int li = 0; li < 10 && nfail < 6; li++) {
    size_t lim = LIM2[li], Lr = lim > 1048576 ? 1048576 : lim; Lr = (Lr + 31) / 32 * 32; if (Lr == 0) Lr = 32;
    tinyjambu_prng_state_t st; E.ndel = 0; E.calls = 0; E.pos = 0;
    tinyjambu_prng_init_user(&st, cb, 0, 0, 0);
    tinyjambu_prng_set_reseed_limit(&st, lim);
    size_t emitted = 0, since = 0, worst = 0, target = Lr * 2 + 5000; unsigned last = E.calls; static uint8_t buf[8192];
    int feeds = (li & 1);
    while (emitted < target) {
      size_t n = 1 + rnd() % 4096;
      /* count bytes per block boundary: requests can only happen before a block */
      size_t p = 0;
      while (p < n) { size_t l = n - p < 32 ? n - p : 32; unsigned c0 = E.calls; tinyjambu_prng_generate(&st, buf, l); if (E.calls != c0) since = 0; since += l; if (since > worst) worst = since; p += l; emitted += l; }
      if (feeds && (rnd() & 3) == 0) { uint8_t f[64]; size_t fl = rnd() % 64; fill(f, fl); tinyjambu_prng_feed(&st, f, fl); }
      (void)last;
    }
    if (worst > Lr) { nfail++; printf("FAIL prng: %zu bytes emitted between two entropy requests with limit %zu (maximum %zu) (C16)%s\n", worst, lim, Lr, feeds ? " with feeds in between" : ""); }
  }
}
/* ------------------------------------------------------------------ clean / free (C20) */
static void t_clean(uint32_t iters)
{
  for (uint32_t it = 0; it < iters && nfail < 6; it++) {
    unsigned off = it & 15, size = (it >> 4) % 70; uint8_t ar[128];
    for (int i = 0; i < 128; i++) ar[i] = (uint8_t)(0x80 | i);
    tinyjambu_clean(ar + 16 + off, size);
    for (int i = 0; i < 128; i++) {
      int inside = i >= (int)(16 + off) && i < (int)(16 + off + size);
      if (inside ? ar[i] != 0 : ar[i] != (uint8_t)(0x80 | i)) { nfail++; printf("FAIL clean: offset(alignment)=%u size=%u: byte %d %s\n", off, size, i - 16 - (int)off, inside ? "not cleared" : "outside the range was modified"); break; }
    }
  }
}
static void t_free(uint32_t iters)
{
  for (uint32_t it = 0; it < iters && nfail < 6; it++) {
    uint8_t fillb = (uint8_t)(it * 37 + 0x5A);
    { tinyjambu_hash_state_t s; memset(&s, fillb, sizeof s); tinyjambu_hash_init(&s); uint8_t m[40]; fill(m, 40); tinyjambu_hash_update(&s, m, it % 40); if (it & 1) tinyjambu_hash_finalize(&s, m); tinyjambu_hash_free(&s);
      for (size_t i = 0; i < sizeof s; i++) if (((uint8_t *)&s)[i]) { nfail++; printf("FAIL free: hash state byte %zu is %02x after tinyjambu_hash_free (prior fill %02x, %u bytes absorbed)\n", i, ((uint8_t *)&s)[i], fillb, it % 40); break; } }
    { tinyjambu_hmac_state_t s; memset(&s, fillb, sizeof s); uint8_t m[40]; fill(m, 40); tinyjambu_hmac_init(&s, m, 16); tinyjambu_hmac_update(&s, m, it % 40); tinyjambu_hmac_free(&s);
      for (size_t i = 0; i < sizeof s; i++) if (((uint8_t *)&s)[i]) { nfail++; printf("FAIL free: hmac state byte %zu not zero after tinyjambu_hmac_free\n", i); break; } }
    { tinyjambu_hkdf_state_t s; memset(&s, fillb, sizeof s); uint8_t m[40]; fill(m, 40); tinyjambu_hkdf_extract(&s, m, 16, m, 8); tinyjambu_hkdf_expand(&s, m, 4, m, it % 40); tinyjambu_hkdf_free(&s);
      for (size_t i = 0; i < sizeof s; i++) if (((uint8_t *)&s)[i]) { nfail++; printf("FAIL free: hkdf state byte %zu not zero after tinyjambu_hkdf_free\n", i); break; } }
    { tinyjambu_prng_state_t s; memset(&s, fillb, sizeof s); E.ndel = 0; tinyjambu_prng_init_user(&s, cb, 0, 0, 0); uint8_t m[40]; tinyjambu_prng_generate(&s, m, it % 40); tinyjambu_prng_free(&s);
      for (size_t i = 0; i < sizeof s; i++) if (((uint8_t *)&s)[i]) { nfail++; printf("FAIL free: prng state byte %zu not zero after tinyjambu_prng_free\n", i); break; } }
  }
  tinyjambu_hash_free(0); tinyjambu_hmac_free(0);
}

int main(int argc, char **argv)
{
  if (argc < 4) { fprintf(stderr, "usage: diff_lib hash|hmac|hkdf|pbkdf2|prng|clean|free|all <seed> <iters>\n"); return 2; }
  rs = 0x9E3779B97F4A7C15ull ^ strtoull(argv[2], 0, 10); uint32_t n = (uint32_t)strtoul(argv[3], 0, 10);
  const char *w = argv[1]; int all = !strcmp(w, "all");
  if (all || !strcmp(w, "hash")) t_hash(n);
  if (all || !strcmp(w, "hmac")) t_hmac(n);
  if (all || !strcmp(w, "hkdf")) t_hkdf(n / 4 + 1);
  if (all || !strcmp(w, "pbkdf2")) t_pbkdf2(n / 4 + 1);
  if (all || !strcmp(w, "prng")) t_prng(n / 8 + 1);
  if (all || !strcmp(w, "clean")) t_clean(n < 2000 ? 2000 : n);
  if (all || !strcmp(w, "free")) t_free(n / 4 + 1);
  printf("diff_lib %s: %d failures\n", w, nfail);
  return nfail ? 1 : 0;
}
