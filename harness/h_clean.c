/* C20: tinyjambu_clean zeroes exactly [buf, buf+size) for EVERY size (unsigned, up to 2^32-1) - loop contract on the
   volatile-pointer fallback loop; -DTJV_ARENA: the region sits at a nondeterministic offset (any alignment) inside a
   larger object and the bytes on both sides must stay unchanged; otherwise the object has exactly `size` bytes so any
   access outside is an object-bounds failure. HAVE_EXPLICIT_BZERO configuration: stubs/libc_bzero.c (assumed libc
   contract) and the obligation is that clean forwards exactly (buf, size). */
#include "tjv.h"
void tinyjambu_clean(void *buf, unsigned size);
size_t tjv_c;        /* ghost index */
unsigned tjw_size, tjw_off;
void harness(void)
{
  unsigned size = nondet_uint();
  tjw_size = size;
  tjv_c = nondet_size();
#ifdef TJV_ARENA
  unsigned off = nondet_uint(); __CPROVER_assume(off < 16);
  tjw_off = off;
  size_t total = (size_t)size + 32;
  unsigned char *arena = malloc(total); __CPROVER_assume(arena);
  size_t g = nondet_size(); __CPROVER_assume(g < total);   /* arbitrary byte of the arena */
  tjv_c = g - off;                                           /* the same byte relative to buf (wraps when g < off: outside) */
  unsigned char before = arena[g];
  tinyjambu_clean(arena + off, size);
  TJV_REACH_HERE("after clean (arena)");
  _Bool inside = g >= off && g < (size_t)off + size;
  __CPROVER_assert(inside ==> arena[g] == 0, "C20: clean zeroes every requested byte");
  __CPROVER_assert(!inside ==> arena[g] == before, "C20: clean touches nothing outside the requested bytes");
#else
  unsigned char *buf = malloc(size); __CPROVER_assume(buf);
  __CPROVER_assume(tjv_c < size || size == 0);
  tinyjambu_clean(buf, size);
  TJV_REACH_HERE("after clean");
  __CPROVER_assert(size == 0 || buf[tjv_c] == 0, "C20: clean zeroes every requested byte");
#endif
}
