/* C05 / L0: real tinyjambu_permutation_NNN(&st, R) on a symbolic state and symbolic key (loaded with the
   library's own key-load macros, i.e. pre-inverted) equals 128*R bit-serial NLFSR steps.  Loop-free after
   unwinding: complete for all 2^128 states x all keys for this (NNN, R).  Frame: key words unchanged. */
#include "tjv.h"
#include "backend/tinyjambu-backend.h"
#include "nlfsr.h"
#ifndef NNN
#define NNN 128
#endif
#ifndef R
#define R 8
#endif
#define KW (NNN / 32)
#define CAT_(a, b) a##b
#define CAT(a, b) CAT_(a, b)
#define STATE_T CAT(CAT(tinyjambu_, NNN), _state_t)
#define PERM CAT(tinyjambu_permutation_, NNN)
int main(void)
{
  uint8_t key[KW * 4];
  STATE_T st;
  uint32_t ref[4], k0[KW];
  for (int i = 0; i < KW * 4; i++) key[i] = nondet_u8();
  for (int i = 0; i < 4; i++) { st.s[i] = nondet_u32(); ref[i] = st.s[i]; }
  for (int i = 0; i < KW; i++) { st.k[i] = (i & 1) ? tinyjambu_key_load_odd(key + 4 * i) : tinyjambu_key_load_even(key + 4 * i); k0[i] = st.k[i]; }
  PERM(&st, R);
  TJV_REACH_HERE("after permutation");
  tjv_nlfsr(ref, key, NNN, 128 * R);
  __CPROVER_assert(st.s[0] == ref[0] && st.s[1] == ref[1] && st.s[2] == ref[2] && st.s[3] == ref[3],
                   "C05: permutation == bit-serial NLFSR of the specification");
  for (int i = 0; i < KW; i++) __CPROVER_assert(st.k[i] == k0[i], "C05: permutation leaves the key words unchanged (frame)");
  return 0;
}
