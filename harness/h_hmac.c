/* C12: real tinyjambu-hmac.c over the contract stubs of the hash API (H = arbitrary function of the absorbed string)
   == RFC 2104 over the same H.  Concrete lengths KL, ML (grid), symbolic key and message bytes.
   MODE 0: one-shot tinyjambu_hmac;  MODE 1: init; update(prefix); reinit; update(a); update(rest); finalize. */
#include "tjv.h"
#include "TinyJAMBU.h"
#define RFC_MAXMSG 64
#include "rfc.h"
#ifndef KL
#define KL 20
#endif
#ifndef ML
#define ML 17
#endif
#ifndef MODE
#define MODE 0
#endif
uint8_t tjw_key[KL + 1], tjw_msg[ML + 1];
void harness(void)
{
  uint8_t key[KL + 1], msg[ML + 1], o1[32], o2[32];
  for (int i = 0; i < KL; i++) { key[i] = nondet_u8(); tjw_key[i] = key[i]; }
  for (int i = 0; i < ML; i++) { msg[i] = nondet_u8(); tjw_msg[i] = msg[i]; }
  for (int i = 0; i < 32; i++) o1[i] = 0;
#if MODE == 0
  tinyjambu_hmac(o1, key, KL, msg, ML);
#else
  tinyjambu_hmac_state_t st;
  tinyjambu_hmac_init(&st, key, KL);
  tinyjambu_hmac_update(&st, msg, ML / 2);
  tinyjambu_hmac_reinit(&st, key, KL);
  tinyjambu_hmac_update(&st, msg, ML / 3);
  tinyjambu_hmac_update(&st, msg + ML / 3, ML - ML / 3);
  tinyjambu_hmac_finalize(&st, key, KL, o1);
#endif
  TJV_REACH_HERE("after hmac");
  rfc2104(o2, key, KL, msg, ML);
  _Bool eq = 1;
  for (int i = 0; i < 32; i++) eq = eq & (o1[i] == o2[i]);
  __CPROVER_assert(eq, "C12: HMAC == RFC 2104 over H (block 64, long keys hashed first)");
}
