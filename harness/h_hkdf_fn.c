/* C13 functional parts over the contract stubs of the hash API (H arbitrary), concrete lengths (grid), symbolic contents:
   WHICH 0: expand STEP from an arbitrary valid abstract state (PRK, T symbolic, n = NN, posn = POSN): output bytes and
            post-state equal the RFC 5869 recurrence T(n) = HMAC(PRK, T(n-1) || info || n) for the block numbers n of the
            grid (n = 1 has no T(0)); PRK, T(n-1), info symbolic.  Counter arithmetic for ALL n: hkdf.expand.sm;
   WHICH 1: extract: PRK = HMAC(salt, key), empty salt == 32 zero bytes, counter/posn initial;
   WHICH 2: one-shot tinyjambu_hkdf (OL <= 8160): == extract; expand from the initial state (first blocks T(1), T(2), ..). */
#include "tjv.h"
#include "TinyJAMBU.h"
#define RFC_MAXMSG 96
#include "rfc.h"
typedef struct { unsigned char prk[32]; unsigned char out[32]; unsigned char counter; unsigned char posn; } hkdf_view_t;
typedef struct { hkdf_view_t p; unsigned char tail[72 - sizeof(hkdf_view_t)]; } hkdf_obj_t;
#ifndef IL
#define IL 10
#endif
#ifndef OL
#define OL 40
#endif
#ifndef POSN
#define POSN 32
#endif
#ifndef NN
#define NN 2
#endif
#ifndef KL
#define KL 13
#endif
#ifndef SL
#define SL 8
#endif
void harness(void)
{
  uint8_t info[IL + 1], out[OL + 1], exp[OL + 64];
  for (int i = 0; i < IL; i++) info[i] = nondet_u8();
#if WHICH == 0
  hkdf_obj_t obj; hkdf_view_t *v = &obj.p;
  v->posn = POSN;
  v->counter = NN;          /* concrete block number (the length of the HMAC input depends on n == 1): grid over n */
  uint8_t prk[32], T[32]; unsigned n = v->counter;
  for (int i = 0; i < 32; i++) { prk[i] = v->prk[i]; T[i] = v->out[i]; }
  int r = tinyjambu_hkdf_expand((tinyjambu_hkdf_state_t *)&obj, info, IL, out, OL);
  TJV_REACH_HERE("after hkdf_expand step");
  /* reference: leftover of T(n-1), then T(n), T(n+1), ... */
  unsigned pos = 0, p = POSN; uint8_t Tc[32], Tn[32];
  for (int i = 0; i < 32; i++) Tc[i] = T[i];
  while (pos < OL) {
    if (p == 32) { rfc5869_block(Tn, prk, Tc, info, IL, n); for (int i = 0; i < 32; i++) Tc[i] = Tn[i]; n++; p = 0; }
    exp[pos++] = Tc[p++];
  }
  _Bool eq = 1;
  for (int i = 0; i < OL; i++) eq = eq & (out[i] == exp[i]);
  __CPROVER_assert(r == 0, "C13: expand within the 8160-byte budget returns 0");
  __CPROVER_assert(eq, "C13: expand output == RFC 5869 recurrence T(n) = HMAC(PRK, T(n-1) || info || n) continued from the abstract state");
  _Bool st = (v->counter == (unsigned char)n) && (v->posn == p);
  for (int i = 0; i < 32; i++) st = st & (v->out[i] == Tc[i]) & (v->prk[i] == prk[i]);
  __CPROVER_assert(st, "C13: expand leaves (PRK, T(n), counter, posn) as the recurrence prescribes");
#elif WHICH == 1
  uint8_t key[KL + 1], salt[SL + 1], prk[32], zeros[32];
  for (int i = 0; i < KL; i++) key[i] = nondet_u8();
  for (int i = 0; i < SL; i++) salt[i] = nondet_u8();
  for (int i = 0; i < 32; i++) zeros[i] = 0;
  hkdf_obj_t obj; hkdf_view_t *v = &obj.p;
  tinyjambu_hkdf_extract((tinyjambu_hkdf_state_t *)&obj, key, KL, SL ? (const unsigned char *)salt : (const unsigned char *)0, SL);
  TJV_REACH_HERE("after hkdf_extract");
  if (SL) rfc2104(prk, salt, SL, key, KL); else rfc2104(prk, zeros, 32, key, KL);
  _Bool eq = 1;
  for (int i = 0; i < 32; i++) eq = eq & (v->prk[i] == prk[i]);
  __CPROVER_assert(eq, "C13: extract: PRK == HMAC(salt, key); empty salt == 32 zero bytes");
  __CPROVER_assert(v->counter == 1 && v->posn == 32, "C13: extract: block counter 1, no leftover");
#else
  uint8_t key[KL + 1], salt[SL + 1], prk[32], zeros[32];
  for (int i = 0; i < KL; i++) key[i] = nondet_u8();
  for (int i = 0; i < SL; i++) salt[i] = nondet_u8();
  for (int i = 0; i < 32; i++) zeros[i] = 0;
  int r = tinyjambu_hkdf(out, OL, key, KL, SL ? (const unsigned char *)salt : (const unsigned char *)0, SL, info, IL);
  TJV_REACH_HERE("after one-shot hkdf");
  if (SL) rfc2104(prk, salt, SL, key, KL); else rfc2104(prk, zeros, 32, key, KL);
  unsigned pos = 0, p = 32, n = 1; uint8_t Tc[32], Tn[32];
  while (pos < OL) {
    if (p == 32) { rfc5869_block(Tn, prk, Tc, info, IL, n); for (int i = 0; i < 32; i++) Tc[i] = Tn[i]; n++; p = 0; }
    exp[pos++] = Tc[p++];
  }
  _Bool eq = 1;
  for (int i = 0; i < OL; i++) eq = eq & (out[i] == exp[i]);
  __CPROVER_assert(r == 0 && eq, "C13: one-shot HKDF == RFC 5869 (extract then expand)");
#endif
}
