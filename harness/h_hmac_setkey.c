/* C12/C06, UNBOUNDED in the key length: tinyjambu_hmac_init (= static tinyjambu_hmac_set_key with mask 0x36) for EVERY
   keylen, key in an exact-size object.  The hash API is a protocol-recording contract stub (below):
     keylen <= 64: init; update(B, 64) with B = key || 0..0 xor 0x36..36
     keylen  > 64: init; update(key, keylen); finalize -> D; init; update(B, 64) with B = D || 0..0 xor 0x36..36
   (ghost index g over the 64 block bytes).  All loops of set_key are bounded by the 64-byte block (complete unwinding). */
#include "tjv.h"
#include "TinyJAMBU.h"
static int step; static const unsigned char *key0; static size_t keylen0;
static unsigned char blk[64], dig[32]; static int have_blk, long_key;
void tinyjambu_hash_init(tinyjambu_hash_state_t *s) { (void)s; __CPROVER_assert(step == 0 || step == 2, "hmac set_key: hash (re)initialised at the right points"); step = (step == 0 && long_key) ? 10 : 3; }
void tinyjambu_hash_reinit(tinyjambu_hash_state_t *s) { tinyjambu_hash_init(s); }
void tinyjambu_hash_update(tinyjambu_hash_state_t *s, const unsigned char *in, size_t inlen)
{
  (void)s;
  if (step == 10) { __CPROVER_assert(in == key0 && inlen == keylen0, "hmac set_key: a key longer than the block is hashed whole, once"); step = 11; return; }
  __CPROVER_assert(step == 3 && inlen == 64, "hmac set_key: exactly one 64-byte key block is absorbed");
  for (int i = 0; i < 64; i++) blk[i] = in[i];
  have_blk = 1; step = 4;
}
void tinyjambu_hash_finalize(tinyjambu_hash_state_t *s, unsigned char *out)
{ (void)s; __CPROVER_assert(step == 11, "hmac set_key: long key digest taken after the key was absorbed"); for (int i = 0; i < 32; i++) { dig[i] = nondet_u8(); out[i] = dig[i]; } step = 2; }
void tinyjambu_hash_free(tinyjambu_hash_state_t *s) { (void)s; }
void tinyjambu_hash(unsigned char *o, const unsigned char *i, size_t n) { (void)o; (void)i; (void)n; __CPROVER_assert(0, "hmac set_key: one-shot hash not used"); }
size_t tjw_keylen;
void harness(void)
{
  size_t keylen = nondet_size(); __CPROVER_assume(keylen <= TJV_MAXLEN); tjw_keylen = keylen;
  unsigned char *key = malloc(keylen); __CPROVER_assume(key);
  size_t g = nondet_size(); __CPROVER_assume(g < 64);
  unsigned char kg = (g < keylen) ? key[g] : 0;
  tinyjambu_hmac_state_t st;
  key0 = key; keylen0 = keylen; long_key = keylen > 64; step = 0; have_blk = 0;
#if defined(TJV_REINIT)
  tinyjambu_hmac_reinit(&st, key, keylen);      /* on a state with arbitrary contents: must behave exactly like init */
#elif defined(TJV_UPDATE)
  /* hmac_update is a call-through to hash_update on the embedded hash state with the caller's pointer and length */
  step = 10; long_key = 1; key0 = key; keylen0 = keylen;
  tinyjambu_hmac_update(&st, key, keylen);
  TJV_REACH_HERE("after hmac_update");
  __CPROVER_assert(step == 11, "C12: hmac_update absorbs exactly the caller's bytes into the inner hash, once");
#else
  tinyjambu_hmac_init(&st, key, keylen);
#endif
#ifndef TJV_UPDATE
  TJV_REACH_HERE("after hmac_init");
  __CPROVER_assert(step == 4 && have_blk, "hmac set_key: protocol completed (key block absorbed into a fresh hash state)");
  unsigned char k0 = long_key ? (g < 32 ? dig[g] : 0) : kg;
  __CPROVER_assert(blk[g] == (unsigned char)(k0 ^ 0x36), "C12: key block byte == K0[g] xor ipad, K0 = key (or Hash(key) if longer than 64) zero-padded to 64 bytes");
#endif
  __CPROVER_assert(keylen == 0 || g >= keylen || key[g] == kg, "C06: key not modified");
}
