/* C13, UNBOUNDED in key and salt length: tinyjambu_hkdf_extract == "PRK = HMAC(key = salt, message = input key material)"
   at the protocol level, for every keylen / saltlen (incl. NULL salt with length 0, which HMAC treats as the all-zero key
   = RFC 5869's HashLen zero bytes: value-level equality in hkdf.extract.grid), PRK written into the state, counter = 1,
   no leftover.  HMAC API = protocol-recording contract stub. */
#include "tjv.h"
#include "TinyJAMBU.h"
typedef struct { unsigned char prk[32]; unsigned char out[32]; unsigned char counter; unsigned char posn; } hkdf_view_t;
typedef struct { hkdf_view_t p; unsigned char tail[72 - sizeof(hkdf_view_t)]; } hkdf_obj_t;
static int step; static const unsigned char *key0, *salt0; static size_t kl0, sl0; static unsigned char *prk0; static unsigned char mac[32];
void tinyjambu_hmac_init(tinyjambu_hmac_state_t *s, const unsigned char *k, size_t kl) { (void)s; __CPROVER_assert(step == 0 && k == salt0 && kl == sl0, "C13: extract keys the HMAC with the salt"); step = 1; }
void tinyjambu_hmac_reinit(tinyjambu_hmac_state_t *s, const unsigned char *k, size_t kl) { (void)s; (void)k; (void)kl; __CPROVER_assert(0, "C13: extract does not re-key"); }
void tinyjambu_hmac_update(tinyjambu_hmac_state_t *s, const unsigned char *in, size_t n) { (void)s; __CPROVER_assert(step == 1 && in == key0 && n == kl0, "C13: extract MACs exactly the input key material, once"); step = 2; }
void tinyjambu_hmac_finalize(tinyjambu_hmac_state_t *s, const unsigned char *k, size_t kl, unsigned char *out)
{ (void)s; __CPROVER_assert(step == 2 && k == salt0 && kl == sl0 && out == prk0, "C13: PRK = HMAC(salt, IKM) is written into the state"); for (int i = 0; i < 32; i++) { mac[i] = nondet_u8(); out[i] = mac[i]; } step = 3; }
void tinyjambu_hmac_free(tinyjambu_hmac_state_t *s) { (void)s; __CPROVER_assert(step == 3, "C13: the HMAC state is wiped after use (C20)"); step = 4; }
void harness(void)
{
  size_t kl = nondet_size(), sl = nondet_size();
  __CPROVER_assume(kl <= TJV_MAXLEN && sl <= TJV_MAXLEN);
  unsigned char *key = malloc(kl), *salt = malloc(sl); __CPROVER_assume(key && salt);
  if (sl == 0 && nondet_bool()) salt = 0;
  hkdf_obj_t obj; hkdf_view_t *v = &obj.p;
  key0 = key; salt0 = salt; kl0 = kl; sl0 = sl; prk0 = v->prk; step = 0;
  size_t g = nondet_size(); __CPROVER_assume(g < 32);
  tinyjambu_hkdf_extract((tinyjambu_hkdf_state_t *)&obj, key, kl, salt, sl);
  TJV_REACH_HERE("after hkdf_extract (protocol)");
  __CPROVER_assert(step == 4, "C13: extract = init(salt); update(IKM); finalize(PRK); free");
  __CPROVER_assert(v->prk[g] == mac[g] && v->counter == 1 && v->posn == 32, "C13: extract: PRK stored, block counter 1, no leftover");
}
