/* C13: one-shot tinyjambu_hkdf with outlen > 8160 (any such size_t): returns -1 and writes NOTHING (no call into
   extract/expand at all: the HMAC and hash stubs are absent, any call would have no body and is flagged), for arbitrary
   other arguments.  And for outlen <= 8160 it returns 0 (values: hkdf.fn grid). */
#include "tjv.h"
#include "TinyJAMBU.h"
int tjv_calls;
void tinyjambu_hkdf_extract(tinyjambu_hkdf_state_t *s, const unsigned char *k, size_t kl, const unsigned char *sa, size_t sl) { (void)s; (void)k; (void)kl; (void)sa; (void)sl; tjv_calls++; }
int tinyjambu_hkdf_expand(tinyjambu_hkdf_state_t *s, const unsigned char *i, size_t il, unsigned char *o, size_t ol) { (void)s; (void)i; (void)il; (void)o; (void)ol; tjv_calls++; return 0; }
void tinyjambu_hkdf_free(tinyjambu_hkdf_state_t *s) { (void)s; }
void tinyjambu_clean(void *b, unsigned n) { (void)b; (void)n; }
size_t tjw_outlen;
void harness(void)
{
  size_t outlen = nondet_size(), kl = nondet_size(), sl = nondet_size(), il = nondet_size();
  tjw_outlen = outlen;
  unsigned char out[1], k[1], s[1], i[1];
  unsigned char o0 = out[0];
  tjv_calls = 0;
  int r = tinyjambu_hkdf(out, outlen, k, kl, s, sl, i, il);
  TJV_REACH_HERE("after one-shot hkdf (cap)");
  __CPROVER_assert((outlen > 8160) == (r == -1), "C13: one-shot HKDF refuses exactly the requests beyond 8160 bytes with -1");
  __CPROVER_assert(outlen > 8160 ==> (tjv_calls == 0 && out[0] == o0), "C13: a refused one-shot request writes nothing and derives nothing");
  __CPROVER_assert(outlen <= 8160 ==> (r == 0 && tjv_calls == 2), "C13: an accepted one-shot request is extract followed by one expand");
}
