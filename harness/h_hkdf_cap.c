/* C13: one-shot tinyjambu_hkdf with outlen > 8160 (any such size_t): returns -1 and writes NOTHING (no call into
   extract/expand at all: the HMAC and hash stubs are absent, any call would have no body and is flagged), for arbitrary
   other arguments.  And for outlen <= 8160 it returns 0 (values: hkdf.fn grid). */
#include "tjv.h"
#include "TinyJAMBU.h"
int tjv_calls;
static tinyjambu_hkdf_state_t *st0; static const unsigned char *a_key, *a_salt, *a_info; static unsigned char *a_out; static size_t a_kl, a_sl, a_il, a_ol; static int wiped;
void tinyjambu_hkdf_extract(tinyjambu_hkdf_state_t *s, const unsigned char *k, size_t kl, const unsigned char *sa, size_t sl)
{ __CPROVER_assert(tjv_calls == 0 && k == a_key && kl == a_kl && sa == a_salt && sl == a_sl, "C13: one-shot = extract(key, salt) first, with the caller's arguments"); st0 = s; tjv_calls++; }
int tinyjambu_hkdf_expand(tinyjambu_hkdf_state_t *s, const unsigned char *i, size_t il, unsigned char *o, size_t ol)
{ __CPROVER_assert(tjv_calls == 1 && s == st0 && i == a_info && il == a_il && o == a_out && ol == a_ol, "C13: then ONE expand(info, out, outlen) on the same state"); tjv_calls++; return 0; }
void tinyjambu_hkdf_free(tinyjambu_hkdf_state_t *s) { __CPROVER_assert(tjv_calls == 2 && s == st0, "C13/C20: state wiped last"); wiped = 1; }
void tinyjambu_clean(void *b, unsigned n) { __CPROVER_assert(tjv_calls == 2 && b == (void *)st0 && n == sizeof(tinyjambu_hkdf_state_t), "C13/C20: the private state is wiped whole"); wiped = 1; }
size_t tjw_outlen;
void harness(void)
{
  size_t outlen = nondet_size(), kl = nondet_size(), sl = nondet_size(), il = nondet_size();
  tjw_outlen = outlen;
  unsigned char out[1], k[1], s[1], i[1];
  unsigned char o0 = out[0];
  tjv_calls = 0; wiped = 0; a_key = k; a_salt = s; a_info = i; a_out = out; a_kl = kl; a_sl = sl; a_il = il; a_ol = outlen;
  int r = tinyjambu_hkdf(out, outlen, k, kl, s, sl, i, il);
  TJV_REACH_HERE("after one-shot hkdf (cap)");
  __CPROVER_assert((outlen > 8160) == (r == -1), "C13: one-shot HKDF refuses exactly the requests beyond 8160 bytes with -1");
  __CPROVER_assert(outlen > 8160 ==> (tjv_calls == 0 && out[0] == o0), "C13: a refused one-shot request writes nothing and derives nothing");
  __CPROVER_assert(outlen <= 8160 ==> (r == 0 && tjv_calls == 2 && wiped), "C13: an accepted one-shot request is extract followed by one expand, then the state is wiped");
}
