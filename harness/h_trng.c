/* C18: tinyjambu_trng_generate against the ghost fault script of stubs/os_entropy.c, for EVERY finite fault sequence
   (loop contract on the retry loop with the ghost fuel as termination measure). */
#include "tjv.h"
#include "random/tinyjambu-trng.h"
extern unsigned tjv_fuel; extern unsigned long tjv_calls; extern int tjv_permanent; extern unsigned char tjv_os[32];
unsigned tjw_fuel;
void harness(void)
{
  unsigned char out[32];
  tjv_fuel = nondet_uint(); tjw_fuel = tjv_fuel; tjv_permanent = 0; tjv_calls = 0;
  for (int i = 0; i < 32; i++) tjv_os[i] = nondet_u8();
  size_t g = nondet_size(); __CPROVER_assume(g < 32);
  unsigned fuel0 = tjv_fuel;
  int ok = tinyjambu_trng_generate(out);
  TJV_REACH_HERE("after trng_generate");
  __CPROVER_assert(ok == 0 || ok == 1, "C18: status is 0 or 1");
  __CPROVER_assert(ok == 1 ==> (out[g] == tjv_os[g] && !tjv_permanent), "C18: after any finite run of EINTR/EAGAIN the source succeeds with exactly the OS-provided 32 bytes");
  __CPROVER_assert(ok == 0 ==> (tjv_permanent && out[g] == 0), "C18: failure is reported only for a permanent error, and the seed buffer is then fully defined (zero)");
  __CPROVER_assert(tjv_calls >= 1 && tjv_calls <= (unsigned long)(fuel0 - tjv_fuel) + 1ul, "C18: one OS call per transient failure plus the final one (no hang, no extra calls)");
}
