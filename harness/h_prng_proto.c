/* C15/C17, UNBOUNDED in the length of caller data (feed size, personalisation length): the derivation protocol of
   feed / reseed / init_user at the level of the hash API (protocol-recording contract stub with arbitrary digests):
     Hash_df(marker, V, data) = Hash( 01 00 00 01 00 [marker] || V(32) || data )      (no marker byte at instantiation)
     feed   : V' = Hash_df(01, V, data);            C' = Hash_df(00, V', -);  counter + 1 (saturating)
     reseed : E = old V overwritten by the delivery;  V' = Hash_df(01, V, E(32));     C' = Hash_df(00, V', -);  counter = 1
     init   : E = zeros overwritten by the delivery;  V  = Hash_df(--, E, custom);    C  = Hash_df(00, V, -);   counter = 1, limit = 32
   and status == (delivered == 32).  The value-level equalities are re-checked end to end on the grids (prng.ops.fn). */
#include "tjv.h"
#include "prng_view.h"
static int call, step; static unsigned char dig[2][32];
static const unsigned char *x_data; static size_t x_len; static int x_marker;       /* expected third update / marker of the FIRST Hash_df */
static prng_view_t *pv; static unsigned char vsnap[32], esnap[32];
static unsigned char ent[32]; static size_t deliver; static unsigned cb_calls;
size_t tjv_callback(void *u, unsigned char *buf, size_t size)
{ (void)u; __CPROVER_assert(size == 32, "C17: the entropy source is asked for a full 32-byte seed"); for (int i = 0; i < 32; i++) if ((size_t)i < deliver) buf[i] = ent[i]; cb_calls++; return deliver; }
void tinyjambu_hash_init(tinyjambu_hash_state_t *s) { (void)s; __CPROVER_assert(step == 0 && call < 2, "prng df: two derivations, each a fresh hash"); step = 1; }
void tinyjambu_hash_update(tinyjambu_hash_state_t *s, const unsigned char *in, size_t n)
{
  (void)s;
  if (step == 1) {
    int marker = (call == 0) ? x_marker : 0;
    __CPROVER_assert(n == (marker < 0 ? 5u : 6u) && in[0] == 1 && in[1] == 0 && in[2] == 0 && in[3] == 1 && in[4] == 0 && (marker < 0 || in[5] == marker),
                     "prng df: header = counter 01, 256 bits to return (00 00 01 00), then the marker byte");
    step = 2;
  } else if (step == 2) {
    _Bool ok = (n == 32);
    const unsigned char *want = (call == 0) ? vsnap : dig[0];
    for (int i = 0; i < 32; i++) ok = ok & (in[i] == want[i]);
    __CPROVER_assert(ok, "prng df: then the 32-byte V (the OLD V for the first derivation, the NEW V for the constant C)");
    step = 3;
  } else {
    __CPROVER_assert(step == 3, "prng df: at most one data string after V");
    if (call == 0) {
      if (WHICH == 2) { _Bool ok = (n == 32); for (int i = 0; i < 32; i++) ok = ok & (in[i] == esnap[i]); __CPROVER_assert(ok, "C15/C17: reseed mixes E = old V overwritten by whatever was delivered"); }
      else __CPROVER_assert(in == x_data && n == x_len, "prng df: then the caller's data, whole");
    } else __CPROVER_assert(n == 0, "prng df: the constant C is derived from 00 || V alone");
    step = 4;
  }
}
void tinyjambu_hash_finalize(tinyjambu_hash_state_t *s, unsigned char *out)
{
  (void)s;
  __CPROVER_assert(step == 4, "prng df: digest taken after header, V and data");
  __CPROVER_assert(out == (call == 0 ? pv->V : pv->C), "prng df: first derivation replaces V, second one C");
  for (int i = 0; i < 32; i++) { dig[call][i] = nondet_u8(); out[i] = dig[call][i]; }
  step = 5;
}
void tinyjambu_hash_free(tinyjambu_hash_state_t *s) { (void)s; __CPROVER_assert(step == 5, "prng df: hash state wiped after use"); step = 0; call++; }
void tinyjambu_hash(unsigned char *o, const unsigned char *i, size_t n) { (void)o; (void)i; (void)n; __CPROVER_assert(0, "prng df: no one-shot hash in feed/reseed/init"); }
int tinyjambu_trng_generate(unsigned char *out) { (void)out; __CPROVER_assert(0, "system source not used with a caller callback"); return 0; }
void harness(void)
{
  prng_obj_t obj; pv = &obj.p; tinyjambu_prng_state_t *st = (tinyjambu_prng_state_t *)&obj;
  size_t len = nondet_size(); __CPROVER_assume(len <= TJV_MAXLEN);
  unsigned char *data = malloc(len); __CPROVER_assume(data);
  for (int i = 0; i < 32; i++) ent[i] = nondet_u8();
  deliver = nondet_size(); cb_calls = 0; call = 0; step = 0;
  size_t w = deliver < 32 ? deliver : 32;
  uint32_t c0 = pv->reseed_counter, l0 = pv->reseed_limit;
  pv->callback = tjv_callback;
  size_t g = nondet_size(); __CPROVER_assume(g < 32);
#if WHICH == 1
  for (int i = 0; i < 32; i++) vsnap[i] = pv->V[i];
  x_data = data; x_len = len; x_marker = 1;
  tinyjambu_prng_feed(st, data, len);
  TJV_REACH_HERE("after prng_feed (protocol)");
  __CPROVER_assert(call == 2 && cb_calls == 0 && pv->V[g] == dig[0][g] && pv->C[g] == dig[1][g] && pv->reseed_counter == (c0 == 0xFFFFFFFFu ? c0 : c0 + 1) && pv->reseed_limit == l0,
                   "C15: feed: V' = Hash_df(1 || V || data), C' = Hash_df(0 || V'), counter + 1: derived from the old state together with the data, for every data length");
#elif WHICH == 2
  for (int i = 0; i < 32; i++) { vsnap[i] = pv->V[i]; esnap[i] = ((size_t)i < w) ? ent[i] : pv->V[i]; }
  x_marker = 1;
  int r = tinyjambu_prng_reseed(st);
  TJV_REACH_HERE("after prng_reseed (protocol)");
  __CPROVER_assert(r == (deliver == 32), "C17: reseed reports success exactly when the source delivered a full 32-byte seed (every delivery count)");
  __CPROVER_assert(call == 2 && cb_calls == 1 && pv->V[g] == dig[0][g] && pv->C[g] == dig[1][g] && pv->reseed_counter == 1 && pv->reseed_limit == l0, "C15/C17: reseed: new state derived from the old V and the delivered bytes; counter restarts");
#else
  for (int i = 0; i < 32; i++) vsnap[i] = ((size_t)i < w) ? ent[i] : 0;
  x_data = data; x_len = len; x_marker = -1;
  int r = tinyjambu_prng_init_user(st, tjv_callback, 0, data, len);
  TJV_REACH_HERE("after prng_init_user (protocol)");
  __CPROVER_assert(r == (deliver == 32), "C17: init reports success exactly when the source delivered a full 32-byte seed (every delivery count)");
  __CPROVER_assert(call == 2 && cb_calls == 1 && pv->V[g] == dig[0][g] && pv->C[g] == dig[1][g] && pv->reseed_counter == 1 && pv->reseed_limit == 32 && pv->callback == tjv_callback,
                   "C15/C17: instantiate: V = Hash_df(entropy || custom) for every custom length, C = Hash_df(0 || V), counter 1, 32-block budget");
#endif
}
