/* C14 (bounded in lengths/count, complete in values): real tinyjambu-pbkdf2.c + real tinyjambu-hmac.c over the hash API's
   contract == RFC 8018 PBKDF2 (F = XOR of the count-fold PRF chain started from salt || INT32BE(i), i from 1; count 0
   behaves as 1) over RFC 2104 over the same arbitrary hash function; exactly OL bytes written. */
#include "tjv.h"
#include "TinyJAMBU.h"
#define RFC_MAXMSG 64
#include "rfc.h"
#ifndef PL
#define PL 8
#endif
#ifndef SL
#define SL 4
#endif
#ifndef CNT
#define CNT 2
#endif
#ifndef OL
#define OL 33
#endif
void harness(void)
{
  uint8_t pw[PL + 1], salt[SL + 1], out[OL + 2], exp[OL + 33];
  for (int i = 0; i < PL; i++) pw[i] = nondet_u8();
  for (int i = 0; i < SL; i++) salt[i] = nondet_u8();
  out[OL] = 0xA5; out[OL + 1] = 0x5A;
  tinyjambu_pbkdf2(out, OL, pw, PL, salt, SL, CNT);
  TJV_REACH_HERE("after pbkdf2");
  unsigned long c = CNT ? CNT : 1;
  for (unsigned blk = 1, pos = 0; pos < OL; blk++) {
    uint8_t m[SL + 4], U[32], T[32], U2[32];
    for (int i = 0; i < SL; i++) m[i] = salt[i];
    m[SL] = (uint8_t)(blk >> 24); m[SL + 1] = (uint8_t)(blk >> 16); m[SL + 2] = (uint8_t)(blk >> 8); m[SL + 3] = (uint8_t)blk;
    rfc2104(U, pw, PL, m, SL + 4);
    for (int i = 0; i < 32; i++) T[i] = U[i];
    for (unsigned long k = 1; k < c; k++) { rfc2104(U2, pw, PL, U, 32); for (int i = 0; i < 32; i++) { U[i] = U2[i]; T[i] ^= U[i]; } }
    for (int i = 0; i < 32 && pos < OL; i++) exp[pos++] = T[i];
  }
  _Bool eq = 1;
  for (int i = 0; i < OL; i++) eq = eq & (out[i] == exp[i]);
  __CPROVER_assert(eq, "C14: PBKDF2 output == RFC 8018 with HMAC as PRF (block i from salt || INT32BE(i), count-fold XOR chain)");
  __CPROVER_assert(out[OL] == 0xA5 && out[OL + 1] == 0x5A, "C14: exactly the requested number of bytes is written");
}
