/* C20: the free function of a hash / HMAC / HKDF / PRNG state zeroes every byte of the public state object, whatever
   the object contained (arbitrary bytes = arbitrary history); NULL is accepted by hash_free / hmac_free.
   tinyjambu_clean is the real function (volatile loop under its loop contract). */
#include "tjv.h"
#include "TinyJAMBU.h"
size_t tjv_c;
#if WHICH == 0
#define T tinyjambu_hash_state_t
#define FREE tinyjambu_hash_free
#elif WHICH == 1
#define T tinyjambu_hmac_state_t
#define FREE tinyjambu_hmac_free
#elif WHICH == 2
#define T tinyjambu_hkdf_state_t
#define FREE tinyjambu_hkdf_free
#else
#define T tinyjambu_prng_state_t
#define FREE tinyjambu_prng_free
#endif
void harness(void)
{
  T *st = malloc(sizeof(T)); __CPROVER_assume(st);       /* exact-size object with arbitrary contents */
  tjv_c = nondet_size(); __CPROVER_assume(tjv_c < sizeof(T));
  FREE(st);
  TJV_REACH_HERE("after free");
  __CPROVER_assert(((unsigned char *)st)[tjv_c] == 0, "C20: every byte of the state object is zero after free");
#if WHICH <= 1
  FREE((T *)0);                                          /* documented no-op */
  TJV_REACH_HERE("after free(NULL)");
#endif
}
