/* Top-level AEAD / SIV functions against the specification program (stubs/mon.c, -DPROG=1..4).
   -DTJV_LEAF_STUBS : setup/absorb/generate_tag/check_tag are contract stubs (modular proof; unbounded with loop contracts)
   without it       : flat - every real leaf function runs, only the permutation is a stub (used with concrete lengths)
   -DINPLACE        : output message buffer == input message buffer
   -DTJV_AD=n -DTJV_ML=n : concrete lengths (bounded stand-in grid); otherwise lengths are symbolic <= TJV_MAXLEN */
#include "tjv.h"
#include "mon.h"
#include "TinyJAMBU.h"

size_t tjw_adlen, tjw_mlen, tjw_gidx;
uint8_t tjw_key[32], tjw_npub[12], tjw_ad[16], tjw_in[24], tjw_rtag[8];
int tjw_ret;
size_t tjv_t;   /* ghost index of one tag byte */

void harness(void)
{
  size_t adlen = nondet_size(), mlen = nondet_size();
  __CPROVER_assume(adlen <= TJV_MAXLEN && mlen <= TJV_MAXLEN);
#ifdef TJV_AD
  adlen = TJV_AD;
#endif
#ifdef TJV_ML
  mlen = TJV_ML;
#endif
  /* key and nonce: exact-size objects of constant size.  In the modular proof the AD buffer is never dereferenced by the
     function under verification (absorb is a contract stub that checks pointer and length; AD accesses are verified in
     leaf*.absorb on an exact-size object), so a symbolic-size AD object would only add array-theory cost. */
  uint8_t k[KW * 4], npub[12];
  for (int i = 0; i < KW * 4; i++) k[i] = nondet_u8();
  for (int i = 0; i < 12; i++) npub[i] = nondet_u8();
#ifdef TJV_LEAF_STUBS
  uint8_t ad_obj[1]; uint8_t *ad = ad_obj;
#else
  uint8_t *ad = malloc(adlen); __CPROVER_assume(ad);
#endif
#ifdef TJV_ADJ    /* separate, NON-overlapping buffers that are neighbours in memory: output first, then 0..7 bytes of gap, then input */
  unsigned gap = nondet_uint(); __CPROVER_assume(gap < 8);
#if PROG == 1 || PROG == 3
  uint8_t *arena = malloc((mlen + 8) + gap + mlen); __CPROVER_assume(arena);
  uint8_t *outb = arena, *inb = arena + (mlen + 8) + gap;
#else
  uint8_t *arena = malloc(mlen + gap + (mlen + 8)); __CPROVER_assume(arena);
  uint8_t *outb = arena, *inb = arena + mlen + gap;
#endif
#elif PROG == 1 || PROG == 3            /* encrypt: in = m (mlen), out = c (mlen + 8) */
#ifdef INPLACE
  uint8_t *outb = malloc(mlen + 8); __CPROVER_assume(outb);
  uint8_t *inb = outb;
#else
  uint8_t *inb = malloc(mlen), *outb = malloc(mlen + 8); __CPROVER_assume(inb && outb);
#endif
#else                                  /* decrypt: in = c (mlen + 8), out = m (mlen) */
#ifdef INPLACE
  uint8_t *inb = malloc(mlen + 8); __CPROVER_assume(inb);
  uint8_t *outb = inb;
#else
  uint8_t *inb = malloc(mlen + 8), *outb = malloc(mlen); __CPROVER_assume(inb && outb);
#endif
#endif
#ifdef TJV_NULLS          /* C06: a zero-length buffer may be passed as NULL */
  if (adlen == 0) ad = 0;
#if PROG == 1 || PROG == 3
  if (mlen == 0) inb = 0;
#else
  if (mlen == 0) outb = 0;
#endif
#endif
  M.pc = 0; M.sub = 0; M.pos = 0; M.tag_lo = 0; M.tag_hi = 0;
  for (int i = 0; i < 4; i++) M.cur[i] = 0;
  for (int i = 0; i < KW; i++) M.kinv[i] = ~tjv_ld(k + 4 * i, 4);
  M.npub = npub; M.ad = ad; M.in = inb; M.out = outb; M.adlen = adlen; M.len = mlen;
  M.o.gidx = nondet_size(); M.o.gout = 0; M.o.gout_set = 0;
  __CPROVER_assume(M.o.gidx < mlen || (mlen == 0 && M.o.gidx == 0));
  /* witnesses for counterexample replay */
  tjw_adlen = adlen; tjw_mlen = mlen; tjw_gidx = M.o.gidx;
#ifdef TJV_WITNESS    /* concrete-length (grid) jobs only: reads of symbolic-size buffers are what the array theory pays for */
  TJW_BYTES(tjw_key, k, KW * 4, 32); TJW_BYTES(tjw_npub, npub, 12, 12); TJW_BYTES(tjw_ad, ad, adlen, 16);
#if PROG == 1 || PROG == 3
  TJW_BYTES(tjw_in, inb, mlen, 24);
#else
  TJW_BYTES(tjw_in, inb, mlen + 8, 24);
#endif
#endif
#if PROG == 2 || PROG == 4
  for (int i = 0; i < 8; i++) { M.rtagv[i] = inb[mlen + i]; tjw_rtag[i] = M.rtagv[i]; }
#endif
  /* ghost indices for "inputs are not modified" */
  size_t gk = nondet_size(), gn = nondet_size(), ga = nondet_size(), gt = nondet_size();
  __CPROVER_assume(gk < KW * 4 && gn < 12 && (ga < adlen || adlen == 0) && gt < 8);
#ifdef TJV_LEAF_STUBS
  uint8_t a_g = 0;
#else
  uint8_t a_g = adlen ? ad[ga] : 0;
#endif
  uint8_t k_g = k[gk], n_g = npub[gn], in_g = mlen ? inb[M.o.gidx] : 0;
  M.in_g = in_g; tjv_t = gt;

#if PROG == 1 || PROG == 3
  size_t clen = nondet_size();
#if PROG == 1
  AEAD_ENC(outb, &clen, inb, mlen, ad, adlen, npub, k);
#else
  SIV_ENC(outb, &clen, inb, mlen, ad, adlen, npub, k);
#endif
  TJV_REACH_HERE("after encrypt");
  __CPROVER_assert(tjv_done(), "spec: specification program ran to completion (every block consumed, nothing skipped, no extra call)");
  __CPROVER_assert(clen == mlen + 8, "spec: *clen == mlen + 8");
  if (mlen > 0) __CPROVER_assert(M.o.gout_set && outb[M.o.gidx] == M.o.gout, "spec: ciphertext byte equals the specification's");
  __CPROVER_assert(outb[mlen + gt] == (uint8_t)((gt < 4 ? M.tag_lo : M.tag_hi) >> (8 * (gt & 3))), "spec: tag byte equals the specification's");
#ifndef INPLACE
  if (mlen > 0) __CPROVER_assert(inb[M.o.gidx] == in_g, "C06: plaintext input not modified");
#endif
#else
  size_t mlen_out = nondet_size();
  int ret;
#if PROG == 2
  ret = AEAD_DEC(outb, &mlen_out, inb, mlen + 8, ad, adlen, npub, k);
#else
  ret = SIV_DEC(outb, &mlen_out, inb, mlen + 8, ad, adlen, npub, k);
#endif
  tjw_ret = ret;
  TJV_REACH_HERE("after decrypt");
  __CPROVER_assert(tjv_done(), "spec: specification program ran to completion (every block consumed, nothing skipped, no extra call)");
  __CPROVER_assert(mlen_out == mlen, "spec: *mlen == clen - 8");
  _Bool match = 1;
  for (int i = 0; i < 8; i++) match = match & (M.rtagv[i] == (uint8_t)((i < 4 ? M.tag_lo : M.tag_hi) >> (8 * (i & 3))));
  __CPROVER_assert(ret == (match ? 0 : -1), "spec: decrypt returns 0 iff the trailing 8 bytes equal the specification's tag over the recovered plaintext, else -1");
  if (mlen > 0) {
    __CPROVER_assert(ret == 0 ==> (M.o.gout_set && outb[M.o.gidx] == M.o.gout), "spec: on accept the plaintext byte equals the specification's");
    __CPROVER_assert(ret != 0 ==> outb[M.o.gidx] == 0, "C04: on reject every plaintext byte is zero");
  }
  __CPROVER_assert(inb[mlen + gt] == M.rtagv[gt], "C06: tag bytes of the input not modified");
#ifndef INPLACE
  if (mlen > 0) __CPROVER_assert(inb[M.o.gidx] == in_g, "C06: ciphertext input not modified");
#endif
#endif
#ifdef TJV_LEAF_STUBS
  __CPROVER_assert(k[gk] == k_g && npub[gn] == n_g, "C06: key and nonce not modified");
#else
  __CPROVER_assert(k[gk] == k_g && npub[gn] == n_g && (adlen == 0 || ad[ga] == a_g), "C06: key, nonce and associated data not modified");
#endif
}
