/* C15 / C17 (bounded in sizes, complete in values): real tinyjambu-prng.c over the hash API's contract (H arbitrary) ==
   the documented Hash_DRBG variant, per operation, from an arbitrary valid state (V, C symbolic):
   WHICH 0 generate(SZ) with (counter, limit) = (CNT, LIM) concrete, entropy callback delivering DEL of 32 symbolic bytes
   WHICH 1 feed(DL bytes)    WHICH 2 reseed (delivery DEL)    WHICH 3 init_user(callback, custom CL bytes; delivery DEL)
   WHICH 4 init_user(NULL callback) == init == system source (tinyjambu_trng_generate stub), status == source status. */
#include "tjv.h"
#include "prng_view.h"
#define RFC_MAXMSG 96
#include "rfc.h"
#ifndef SZ
#define SZ 33
#endif
#ifndef DEL
#define DEL 32
#endif
#ifndef CNT
#define CNT 5
#endif
#ifndef LIM
#define LIM 32
#endif
#ifndef DL
#define DL 5
#endif
#ifndef CL
#define CL 9
#endif
uint8_t tjv_ent[32]; unsigned tjv_cb_calls; int tjv_trng_ok; unsigned tjv_trng_calls;
size_t tjv_callback(void *user_data, unsigned char *buf, size_t size)
{
  (void)user_data;
  __CPROVER_assert(size == 32, "C17: the entropy source is asked for a full 32-byte seed");
  for (int i = 0; i < 32 && i < DEL; i++) buf[i] = tjv_ent[i];
  tjv_cb_calls++;
  return DEL;
}
int tinyjambu_trng_generate(unsigned char *out) { for (int i = 0; i < 32; i++) out[i] = tjv_trng_ok ? tjv_ent[i] : 0; tjv_trng_calls++; return tjv_trng_ok; }

static void ref_df(uint8_t out[32], int marker, const uint8_t *V, const uint8_t *in, unsigned inlen)
{ uint8_t m[1 + 32 + 64]; unsigned l = 0; if (marker >= 0) m[l++] = (uint8_t)marker; for (int i = 0; i < 32; i++) m[l++] = V[i]; for (unsigned i = 0; i < inlen; i++) m[l++] = in[i]; sp80090a_hash_df(out, m, l); }
static void ref_reseed(uint8_t V[32], uint8_t C[32], uint32_t *counter)
{
  uint8_t E[32], V2[32], z = 0;
  for (int i = 0; i < 32; i++) E[i] = (i < DEL) ? tjv_ent[i] : V[i];
  ref_df(V2, 1, V, E, 32); for (int i = 0; i < 32; i++) V[i] = V2[i];
  ref_df(C, 0, V, &z, 0); *counter = 1;
}
static void ref_block(uint8_t out[32], uint8_t V[32], const uint8_t C[32], uint32_t *counter)
{
  uint8_t m[33], Hh[32]; uint32_t carry = *counter;
  tjv_H(out, V, 32);
  m[0] = 3; for (int i = 0; i < 32; i++) m[1 + i] = V[i];
  tjv_H(Hh, m, 33);
  for (int i = 31; i >= 0; i--) { carry += V[i]; carry += Hh[i]; carry += C[i]; V[i] = (uint8_t)carry; carry >>= 8; }
  (*counter)++;
}
static _Bool state_eq(const prng_view_t *pv, const uint8_t V[32], const uint8_t C[32], uint32_t counter, uint32_t limit)
{ _Bool e = pv->reseed_counter == counter && pv->reseed_limit == limit; for (int i = 0; i < 32; i++) e = e & (pv->V[i] == V[i]) & (pv->C[i] == C[i]); return e; }

void harness(void)
{
  prng_obj_t obj; prng_view_t *pv = &obj.p; tinyjambu_prng_state_t *st = (tinyjambu_prng_state_t *)&obj;
  uint8_t V[32], C[32]; uint32_t counter = CNT, limit = LIM;
  for (int i = 0; i < 32; i++) { tjv_ent[i] = nondet_u8(); V[i] = pv->V[i]; C[i] = pv->C[i]; }
  pv->reseed_counter = CNT; pv->reseed_limit = LIM; pv->callback = tjv_callback;
  tjv_cb_calls = 0; tjv_trng_calls = 0;
#if WHICH == 0
  uint8_t out[SZ + 2], exp[SZ + 32]; out[SZ] = 0xA5;
  tinyjambu_prng_generate(st, out, SZ);
  TJV_REACH_HERE("after prng_generate (functional)");
  unsigned reseeds = 0;
  for (unsigned pos = 0; pos < SZ; ) {
    uint8_t blk[32];
    if (counter > limit) { ref_reseed(V, C, &counter); reseeds++; }
    ref_block(blk, V, C, &counter);
    for (int i = 0; i < 32 && pos < SZ; i++) exp[pos++] = blk[i];
  }
  _Bool eq = 1; for (int i = 0; i < SZ; i++) eq = eq & (out[i] == exp[i]);
  __CPROVER_assert(eq, "C15: every output block is Hash(V) of the documented Hash_DRBG state sequence");
  __CPROVER_assert(state_eq(pv, V, C, counter, limit), "C15: state advanced by V + Hash(3||V) + C + counter per block; automatic reseed exactly when counter > limit");
  __CPROVER_assert(tjv_cb_calls == reseeds, "C15/C16: entropy requests exactly where the documented DRBG reseeds");
  __CPROVER_assert(out[SZ] == 0xA5, "C06: generate writes exactly size bytes");
#elif WHICH == 1
  uint8_t data[DL + 1], V2[32], z = 0;
  for (int i = 0; i < DL; i++) data[i] = nondet_u8();
  tinyjambu_prng_feed(st, data, DL);
  TJV_REACH_HERE("after prng_feed (functional)");
  ref_df(V2, 1, V, data, DL); ref_df(C, 0, V2, &z, 0);
  __CPROVER_assert(state_eq(pv, V2, C, CNT + 1, limit), "C15: feed: V' = Hash_df(1 || V || data), C' = Hash_df(0 || V'), counter + 1 - derived from the old state together with the data");
#elif WHICH == 2
  int r = tinyjambu_prng_reseed(st);
  TJV_REACH_HERE("after prng_reseed (functional)");
  ref_reseed(V, C, &counter);
  __CPROVER_assert(r == (DEL == 32), "C17: reseed reports success exactly when the source delivered a full 32-byte seed");
  __CPROVER_assert(state_eq(pv, V, C, 1, limit), "C15/C17: reseed: V' = Hash_df(1 || V || E), E = old V overwritten by whatever was delivered; usable state also after a short delivery");
#elif WHICH == 3
  uint8_t custom[CL + 1], E[32], m[32 + CL + 1], z = 0;
  for (int i = 0; i < CL; i++) custom[i] = nondet_u8();
  int r = tinyjambu_prng_init_user(st, tjv_callback, 0, custom, CL);
  TJV_REACH_HERE("after prng_init_user (functional)");
  for (int i = 0; i < 32; i++) E[i] = (i < DEL) ? tjv_ent[i] : 0;
  ref_df(V, -1, E, custom, CL); ref_df(C, 0, V, &z, 0);
  __CPROVER_assert(r == (DEL == 32), "C17: init reports success exactly when the source delivered a full 32-byte seed");
  __CPROVER_assert(state_eq(pv, V, C, 1, 32) && pv->callback == tjv_callback, "C15/C17: instantiate: V = Hash_df(entropy || custom), C = Hash_df(0 || V), counter 1, limit 32 blocks; usable also after a short delivery");
#else
  prng_obj_t obj2; prng_view_t *pv2 = &obj2.p;
  uint8_t custom[CL + 1];
  for (int i = 0; i < CL; i++) custom[i] = nondet_u8();
  tjv_trng_ok = nondet_bool();
  int r1 = tinyjambu_prng_init_user(st, 0, 0, custom, CL);
  int r2 = tinyjambu_prng_init((tinyjambu_prng_state_t *)&obj2, custom, CL);
  TJV_REACH_HERE("after prng_init_user(NULL)");
  __CPROVER_assert(tjv_trng_calls == 2, "C17: no callback selects the system entropy source");
  __CPROVER_assert(r1 == tjv_trng_ok && r2 == tjv_trng_ok, "C17: status == status of the system source");
  _Bool same = pv->callback == pv2->callback && pv->user_data == pv2->user_data && pv->callback != 0;
  __CPROVER_assert(same && state_eq(pv, pv2->V, pv2->C, pv2->reseed_counter, pv2->reseed_limit), "C17: init_user without callback behaves exactly like plain init");
  int r3 = tinyjambu_prng_reseed(st);
  __CPROVER_assert(tjv_trng_calls == 3 && r3 == tjv_trng_ok, "C17: later reseeds of a no-callback generator use the system source (no crash)");
#endif
}
