/* C13 state machine of tinyjambu_hkdf_expand, UNBOUNDED in outlen, from an ARBITRARY valid state (counter, posn):
   HMAC callees are frame-only contract stubs.  Abstract view: served = number of OKM bytes handed out since extract
     blocks  = (counter == 0 ? 255 : counter - 1)   blocks generated so far,   valid: posn <= 32, (blocks == 0 ==> posn == 32)
     served  = 32 * blocks - (32 - posn)
   Contract: result == -1 iff served + outlen > 8160; served' == min(served + outlen, 8160); every output byte at OKM
   position >= 8160 is zero; one HMAC per new block; exactly outlen bytes written; and the per-block PROTOCOL for every
   block number and every infolen: HMAC keyed with PRK over T(n-1) (n > 1) || info || n, result stored as T(n). */
#include "tjv.h"
#include "TinyJAMBU.h"
typedef struct { unsigned char prk[32]; unsigned char out[32]; unsigned char counter; unsigned char posn; } hkdf_view_t;
typedef struct { hkdf_view_t p; unsigned char tail[72 - sizeof(hkdf_view_t)]; } hkdf_obj_t;
extern unsigned long tjv_hm_inits, tjv_hm_finals;
extern uint8_t tjv_hm_last1;
extern const unsigned char *tjv_hkdf_prk, *tjv_hkdf_T, *tjv_hkdf_info, *tjv_hkdf_counter; extern size_t tjv_hkdf_infolen;
size_t tjv_g;                         /* ghost output index */
unsigned long tjv_inits0;
unsigned char *tjv_out0;
/* position of the ghost byte relative to a fill that starts at tjv_fill_base (memset_ghost.c) */
extern unsigned char *tjv_fill_base;
size_t tjv_g_rel_to(const unsigned char *base)
{
  if (!__CPROVER_same_object(base, tjv_out0)) return (size_t)-1;          /* a fill of some other object: not observed */
  return tjv_g - ((size_t)__CPROVER_POINTER_OFFSET(base) - (size_t)__CPROVER_POINTER_OFFSET(tjv_out0));
}
size_t tjw_outlen; unsigned tjw_counter, tjw_posn;
static size_t served_of(const hkdf_view_t *v) { size_t blocks = v->counter == 0 ? 255 : (size_t)v->counter - 1; return 32 * blocks - (32 - v->posn); }
void harness(void)
{
  hkdf_obj_t obj; hkdf_view_t *v = &obj.p;
  __CPROVER_assert(sizeof(obj) == sizeof(tinyjambu_hkdf_state_t), "tjv aux: state object has the size of the public type");
  __CPROVER_assume(v->posn >= 1 && v->posn <= 32 && (v->counter != 1 || v->posn == 32));   /* representation invariant */
  size_t outlen = nondet_size(), infolen = nondet_size();
  __CPROVER_assume(outlen <= TJV_MAXLEN && infolen <= TJV_MAXLEN);
  tjw_outlen = outlen; tjw_counter = v->counter; tjw_posn = v->posn;
  unsigned char *out = malloc(outlen); __CPROVER_assume(out);
  tjv_out0 = out;
  unsigned char *info_obj = malloc(infolen); __CPROVER_assume(info_obj);
  tjv_hkdf_prk = v->prk; tjv_hkdf_T = v->out; tjv_hkdf_counter = &v->counter; tjv_hkdf_info = info_obj; tjv_hkdf_infolen = infolen;
  size_t served0 = served_of(v);
  tjv_g = nondet_size(); __CPROVER_assume(tjv_g < outlen || outlen == 0);
  tjv_hm_inits = 0; tjv_hm_finals = 0; tjv_inits0 = 0;
  int r = tinyjambu_hkdf_expand((tinyjambu_hkdf_state_t *)&obj, info_obj, infolen, out, outlen);
  TJV_REACH_HERE("after hkdf_expand");
  __CPROVER_assert(r == ((served0 + outlen > 8160) ? -1 : 0), "C13: expand returns -1 iff the request goes beyond byte 8160 of the output keying material, else 0");
  __CPROVER_assert(v->posn <= 32, "C13: expand keeps the state valid (posn <= 32)");
  size_t served1 = served_of(v);
  __CPROVER_assert(served1 == (served0 + outlen > 8160 ? 8160 : served0 + outlen), "C13: bytes served advance by exactly outlen (capped at 8160)");
  if (outlen > 0 && served0 + tjv_g >= 8160) __CPROVER_assert(out[tjv_g] == 0, "C13: everything past byte 8160 is zero-filled, never key material");
  size_t blocks0 = (served0 + 31) / 32, blocks1 = (served1 + 31) / 32;
  __CPROVER_assert(tjv_hm_inits == blocks1 - blocks0 && tjv_hm_finals == blocks1 - blocks0, "C13: exactly one HMAC evaluation per newly started 32-byte block");
}
