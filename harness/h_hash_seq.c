/* One-shot tinyjambu_hash(out, in, inlen) == init; update(in, inlen); finalize(out); free on ONE private state object:
   the incremental functions are contract stubs that check the call sequence and the arguments (their functional
   contracts are discharged in hash.init / hash.update.* / hash.finalize / free.hash).  With C11's update contract
   (view' = byte fold over the input) this makes the one-shot digest the MDPH digest of the whole input for every length. */
#include "tjv.h"
#include "TinyJAMBU.h"
static int step; static tinyjambu_hash_state_t *obj; static const unsigned char *in0; static size_t len0; static unsigned char *out0;
void tinyjambu_hash_init(tinyjambu_hash_state_t *s) { __CPROVER_assert(step == 0, "hash: one-shot starts with init"); obj = s; step = 1; }
void tinyjambu_hash_reinit(tinyjambu_hash_state_t *s) { __CPROVER_assert(0, "hash: one-shot does not call reinit"); (void)s; }
void tinyjambu_hash_update(tinyjambu_hash_state_t *s, const unsigned char *in, size_t inlen)
{ __CPROVER_assert(step == 1 && s == obj && in == in0 && inlen == len0, "hash: one-shot absorbs exactly the caller's input, once, into the initialised state"); step = 2; }
void tinyjambu_hash_finalize(tinyjambu_hash_state_t *s, unsigned char *out)
{ __CPROVER_assert(step == 2 && s == obj && out == out0, "hash: one-shot finalises the same state into the caller's output buffer"); for (int i = 0; i < 32; i++) out[i] = nondet_u8(); step = 3; }
void tinyjambu_hash_free(tinyjambu_hash_state_t *s) { __CPROVER_assert(step == 3 && s == obj, "hash: one-shot wipes its private state afterwards (C20)"); step = 4; }
void tinyjambu_hash(unsigned char *out, const unsigned char *in, size_t inlen);
void harness(void)
{
  size_t inlen = nondet_size(); __CPROVER_assume(inlen <= TJV_MAXLEN);
  unsigned char *in = malloc(inlen), *out = malloc(32); __CPROVER_assume(in && out);
  in0 = in; len0 = inlen; out0 = out; step = 0;
  tinyjambu_hash(out, in, inlen);
  TJV_REACH_HERE("after one-shot hash (sequence)");
  __CPROVER_assert(step == 4, "hash: one-shot = init; update; finalize; free");
}
