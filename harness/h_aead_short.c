/* C03/C08: ciphertext shorter than the 8-byte tag: negative result, no byte of the plaintext buffer written, no
   cipher call made (the specification program is empty: any permutation/setup/absorb/tag call fails its assertion).
   clen is symbolic in 0..7, every buffer is an exact-size object. */
#include "tjv.h"
#include "mon.h"
#include "TinyJAMBU.h"
size_t tjw_clen;
void harness(void)
{
  size_t clen = nondet_size(), adlen = nondet_size();
  __CPROVER_assume(clen < 8 && adlen <= TJV_MAXLEN);
  tjw_clen = clen;
  uint8_t k[KW * 4], npub[12], ad_obj[1];
  uint8_t *c = malloc(clen), *m = malloc(8);
  __CPROVER_assume(c && m);
  for (int i = 0; i < KW * 4; i++) k[i] = nondet_u8();
  M.pc = 0; M.sub = 0; M.pos = 0;
  size_t g = nondet_size(); __CPROVER_assume(g < 8);
  uint8_t m_g = m[g];
  size_t mlen_out = nondet_size();
  int ret;
#if SIV
  ret = SIV_DEC(m, &mlen_out, c, clen, ad_obj, adlen, npub, k);
#else
  ret = AEAD_DEC(m, &mlen_out, c, clen, ad_obj, adlen, npub, k);
#endif
  TJV_REACH_HERE("after short decrypt");
  __CPROVER_assert(ret < 0, "spec: input shorter than 8 bytes is rejected with a negative result");
  __CPROVER_assert(m[g] == m_g, "spec: input shorter than 8 bytes: no plaintext byte written");
}
