/* C16: reseed budget.  WHICH 0: tinyjambu_prng_generate for ARBITRARY size from an arbitrary valid state
   (1 <= limit <= 32768, counter >= 1, callback set, ghost invariant B <= counter - 1): every emitted block is within the
   budget (asserted in the hash stub), valid(state) and the ghost invariant are re-established; a lowered limit is honoured
   at the next block because the comparison is made before EVERY block.  WHICH 1: set_reseed_limit clamp for every size_t.
   WHICH 2/3/4: feed / reseed / init_user preserve valid(state) and B <= counter - 1 ("feeding only brings the reseed closer"). */
#include "tjv.h"
#include "prng_view.h"
extern unsigned tjv_B; extern prng_view_t *tjv_prng; extern unsigned tjv_cb_calls;
size_t tjw_size; uint32_t tjw_counter, tjw_limit;
#define VALID(pv) ((pv)->reseed_limit >= 1 && (pv)->reseed_limit <= 32768 && (pv)->reseed_counter >= 1 && (pv)->callback == tjv_callback)
void harness(void)
{
  prng_obj_t obj; prng_view_t *pv = &obj.p;
  tinyjambu_prng_state_t *st = (tinyjambu_prng_state_t *)&obj;
  __CPROVER_assert(sizeof(obj) == sizeof(tinyjambu_prng_state_t), "tjv aux: state object has the size of the public type");
  pv->callback = tjv_callback;
  tjv_prng = pv; tjv_cb_calls = 0;
#if WHICH != 4
  __CPROVER_assume(VALID(pv));
  __CPROVER_assume(tjv_B <= pv->reseed_counter - 1);
#endif
  tjw_counter = pv->reseed_counter; tjw_limit = pv->reseed_limit;
#if WHICH == 0
  size_t size = nondet_size(); __CPROVER_assume(size <= TJV_MAXLEN); tjw_size = size;
  unsigned char *data = malloc(size); __CPROVER_assume(data);
  tinyjambu_prng_generate(st, data, size);
  TJV_REACH_HERE("after prng_generate");
#elif WHICH == 1
  size_t limit = nondet_size(); tjw_size = limit;
  uint32_t c0 = pv->reseed_counter;
  tinyjambu_prng_set_reseed_limit(st, limit);
  TJV_REACH_HERE("after set_reseed_limit");
  size_t lim = limit > 1048576 ? 1048576 : limit;
  size_t blocks = lim / 32 + (lim % 32 != 0); if (blocks == 0) blocks = 1;
  __CPROVER_assert(pv->reseed_limit == blocks, "C16: limit is clamped to 1 MiB, rounded up to 32-byte blocks, at least one block");
  __CPROVER_assert(pv->reseed_counter == c0, "C16: changing the limit does not reset the block count (a lowered limit applies at the next block)");
#elif WHICH == 2
  size_t size = nondet_size(); __CPROVER_assume(size <= TJV_MAXLEN); tjw_size = size;
  unsigned char dobj[1];
  uint32_t c0 = pv->reseed_counter;
  tinyjambu_prng_feed(st, dobj, size);
  TJV_REACH_HERE("after prng_feed");
  __CPROVER_assert(pv->reseed_counter > c0 || pv->reseed_counter == 0xFFFFFFFFu, "C16: feeding only ever brings the next reseed closer (counter never decreases)");
  __CPROVER_assert(tjv_cb_calls == 0, "C16: feed does not count as an entropy request");
#elif WHICH == 3
  int r = tinyjambu_prng_reseed(st);
  TJV_REACH_HERE("after prng_reseed");
  __CPROVER_assert(tjv_cb_calls == 1 && pv->reseed_counter == 1 && (r == 0 || r == 1), "C16: reseed makes exactly one entropy request and restarts the block count");
#elif WHICH == 4
  unsigned char cobj[1]; size_t cl = nondet_size();
  int r = tinyjambu_prng_init_user(st, tjv_callback, 0, cobj, cl);
  TJV_REACH_HERE("after prng_init_user");
  __CPROVER_assert(tjv_cb_calls == 1 && pv->reseed_counter == 1 && pv->reseed_limit == 32 && (r == 0 || r == 1), "C16: init makes one entropy request; default budget 1024 bytes = 32 blocks");
#endif
  __CPROVER_assert(VALID(pv), "C16: valid(state) preserved: 1 <= limit <= 32768 blocks, counter >= 1, callback kept");
  __CPROVER_assert(tjv_B <= pv->reseed_counter - 1, "C16: ghost invariant B <= counter - 1 preserved (blocks since the last entropy request)");
}
