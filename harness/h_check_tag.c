/* check_tag under its function contract (enforced), arbitrary plaintext_len and size <= 64. */
#include "tjv.h"
#include "c_util.h"
#include "backend/tinyjambu-util.h"
size_t tjv_j, tjv_k;
void harness(void)
{
  unsigned char *p, *t1, *t2; size_t pl, sz;
  tjv_j = nondet_size(); tjv_k = nondet_size();
  int r = tinyjambu_aead_check_tag(p, pl, t1, t2, sz);
  TJV_REACH_HERE("after check_tag");
  (void)r;
}
