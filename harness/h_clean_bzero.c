/* C20, HAVE_EXPLICIT_BZERO configuration of tinyjambu_clean: forwards exactly (buf, size) to explicit_bzero, once. */
#include "tjv.h"
void tinyjambu_clean(void *buf, unsigned size);
size_t tjv_c;
extern void *tjv_bzero_ptr; extern size_t tjv_bzero_len; extern int tjv_bzero_calls;
void harness(void)
{
  unsigned size = nondet_uint();
  unsigned char *buf = malloc(size); __CPROVER_assume(buf);
  tjv_c = nondet_size(); __CPROVER_assume(tjv_c < size || size == 0);
  tjv_bzero_calls = 0;
  tinyjambu_clean(buf, size);
  TJV_REACH_HERE("after clean (explicit_bzero configuration)");
  __CPROVER_assert(tjv_bzero_calls == 1 && tjv_bzero_ptr == buf && tjv_bzero_len == size, "C20: clean forwards exactly (buf, size) to explicit_bzero");
  __CPROVER_assert(size == 0 || buf[tjv_c] == 0, "C20: clean zeroes every requested byte");
}
