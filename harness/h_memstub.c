/* Reduces the trusted base: the byte-loop memcpy/memset of stubs/mem.c (linked where a copy length is symbolic) agree with
   CBMC's built-in models on every length 0..64 and all contents.  The stub functions are compiled under other names. */
#include "tjv.h"
#include <string.h>
void *tjv_memcpy(void *d, const void *s, size_t n);
void *tjv_memset(void *d, int c, size_t n);
void harness(void)
{
  unsigned char src[64], a[66], b[66];
  size_t n = nondet_size(); __CPROVER_assume(n <= 64);
  int c = nondet_int();
  for (int i = 0; i < 66; i++) { a[i] = nondet_u8(); b[i] = a[i]; }
  if (nondet_bool()) { memcpy(a, src, n); tjv_memcpy(b, src, n); } else { memset(a, c, n); tjv_memset(b, c, n); }
  TJV_REACH_HERE("after both memory operations");
  _Bool eq = 1;
  for (int i = 0; i < 66; i++) eq = eq & (a[i] == b[i]);
  __CPROVER_assert(eq, "tjv stub: byte-loop memcpy/memset == CBMC built-in model (n <= 64), nothing written beyond n");
}
