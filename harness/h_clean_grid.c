/* C20 bounded stand-in (no loop contract: still decides a restructured tinyjambu_clean): concrete size TJV_SZ, region at a
   nondeterministic offset 0..15 (every alignment) inside a larger arena, loops fully unwound. */
#include "tjv.h"
void tinyjambu_clean(void *buf, unsigned size);
#ifndef TJV_SZ
#define TJV_SZ 7
#endif
unsigned tjw_off;
void harness(void)
{
  unsigned char arena[TJV_SZ + 40];
  unsigned off = nondet_uint(); __CPROVER_assume(off < 16); tjw_off = off;
  unsigned g = nondet_uint(); __CPROVER_assume(g < TJV_SZ + 40);
  unsigned char before = arena[g];
  tinyjambu_clean(arena + off, TJV_SZ);
  TJV_REACH_HERE("after clean grid point");
  _Bool inside = g >= off && g < off + TJV_SZ;
  __CPROVER_assert(inside ==> arena[g] == 0, "C20: clean zeroes every requested byte (any alignment)");
  __CPROVER_assert(!inside ==> arena[g] == before, "C20: clean touches nothing outside the requested bytes (any alignment)");
}
