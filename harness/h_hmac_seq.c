/* C12: one-shot tinyjambu_hmac(out, key, keylen, in, inlen) == init(key); update(in, inlen); finalize(key, out) on ONE private
   state, then the state is wiped - for every keylen and inlen (callee contracts: hmac.setkey.u, hmac.finalize.u, C11). */
#include "tjv.h"
#include "TinyJAMBU.h"
static int step; static tinyjambu_hmac_state_t *st0; static const unsigned char *k0, *in0; static size_t kl0, il0; static unsigned char *out0;
void tinyjambu_hmac_init(tinyjambu_hmac_state_t *s, const unsigned char *k, size_t kl) { __CPROVER_assert(step == 0 && k == k0 && kl == kl0, "C12: one-shot starts with init(key)"); st0 = s; step = 1; }
void tinyjambu_hmac_reinit(tinyjambu_hmac_state_t *s, const unsigned char *k, size_t kl) { (void)s; (void)k; (void)kl; __CPROVER_assert(0, "C12: one-shot does not re-key"); }
void tinyjambu_hmac_update(tinyjambu_hmac_state_t *s, const unsigned char *in, size_t n) { __CPROVER_assert(step == 1 && s == st0 && in == in0 && n == il0, "C12: one-shot absorbs exactly the caller's message, once"); step = 2; }
void tinyjambu_hmac_finalize(tinyjambu_hmac_state_t *s, const unsigned char *k, size_t kl, unsigned char *out)
{ __CPROVER_assert(step == 2 && s == st0 && k == k0 && kl == kl0 && out == out0, "C12: one-shot finalises with the same key into the caller's buffer"); for (int i = 0; i < 32; i++) out[i] = nondet_u8(); step = 3; }
void tinyjambu_hmac_free(tinyjambu_hmac_state_t *s) { __CPROVER_assert(step == 3 && s == st0, "C12/C20: state wiped last"); step = 4; }
void tinyjambu_clean(void *b, unsigned n) { __CPROVER_assert(step == 3 && b == (void *)st0 && n == sizeof(tinyjambu_hmac_state_t), "C12/C20: the private HMAC state is wiped whole"); step = 4; }
void tinyjambu_hmac(unsigned char *out, const unsigned char *key, size_t keylen, const unsigned char *in, size_t inlen);
void harness(void)
{
  size_t kl = nondet_size(), il = nondet_size();
  unsigned char key[1], in[1], out[32];
  k0 = key; kl0 = kl; in0 = in; il0 = il; out0 = out; step = 0;
  tinyjambu_hmac(out, key, kl, in, il);
  TJV_REACH_HERE("after one-shot hmac (sequence)");
  __CPROVER_assert(step == 4, "C12: one-shot = init; update; finalize; wipe");
}
