/* Bounded stand-in for check_tag (robust against restructured loops: no loop contract, loops fully unwound):
   concrete plaintext length TJV_PL, tag size 8, symbolic tags and contents, and the plaintext placed at a
   NONDETERMINISTIC byte offset 0..7 inside a larger arena so that every pointer alignment is covered
   (CBMC's pointer-to-integer model: low address bits = offset inside the object). Bytes of the arena outside
   [off, off+PL) must stay unchanged. */
#include "tjv.h"
#include "backend/tinyjambu-util.h"
#ifndef TJV_PL
#define TJV_PL 5
#endif
unsigned tjw_off; uint8_t tjw_t1[8], tjw_t2[8];
void harness(void)
{
  unsigned char arena[TJV_PL + 16], t1[8], t2[8];
  unsigned off = nondet_uint(); __CPROVER_assume(off < 8);
  tjw_off = off;
  unsigned g = nondet_uint(); __CPROVER_assume(g < TJV_PL + 16);
  unsigned char before = arena[g];
  _Bool same = 1;
  for (int i = 0; i < 8; i++) { same = same & (t1[i] == t2[i]); tjw_t1[i] = t1[i]; tjw_t2[i] = t2[i]; }
  int r = tinyjambu_aead_check_tag(arena + off, TJV_PL, t1, t2, 8);
  TJV_REACH_HERE("after check_tag grid point");
  __CPROVER_assert(r == (same ? 0 : -1), "C03: check_tag returns 0 iff all 8 tag bytes are equal, else -1");
  _Bool inside = g >= off && g < off + TJV_PL;
  __CPROVER_assert((inside && !same) ==> arena[g] == 0, "C04: reject zeroes every plaintext byte (any alignment)");
  __CPROVER_assert((inside && same) ==> arena[g] == before, "C04: accept leaves every plaintext byte unchanged");
  __CPROVER_assert(!inside ==> arena[g] == before, "C06: check_tag writes nothing outside plaintext[0..len)");
}
