/* check_tag at the tag size every call site uses (8): the 'if' direction of C03 — all 8 bytes equal => accept,
   plus the exact verdict for every pair of tags; plaintext length arbitrary (second loop under loop contract). */
#include "tjv.h"
#include "backend/tinyjambu-util.h"
size_t tjv_j, tjv_k;
size_t tjw_pl;
void harness(void)
{
  size_t pl = nondet_size();
  __CPROVER_assume(pl <= TJV_MAXLEN);
  tjw_pl = pl;
  /* like the in-place decrypt layout: 8 more bytes (the received tag) follow the plaintext region in the SAME object;
     they are outside check_tag's frame and must be preserved */
  unsigned char *p = malloc(pl + 8);
  __CPROVER_assume(p);
  unsigned gt = nondet_uint(); __CPROVER_assume(gt < 8);
  unsigned char tail_before = p[pl + gt];
  unsigned char t1[8], t2[8];
  tjv_k = nondet_size(); tjv_j = 0;
  __CPROVER_assume(tjv_k < pl || pl == 0);
  unsigned char before = pl ? p[tjv_k] : 0;
  _Bool same = 1;
  for (int i = 0; i < 8; i++) same = same & (t1[i] == t2[i]);
  int r = tinyjambu_aead_check_tag(p, pl, t1, t2, 8);
  TJV_REACH_HERE("after check_tag(8)");
  __CPROVER_assert(r == (same ? 0 : -1), "C03: check_tag returns 0 iff all 8 tag bytes are equal, else -1");
  __CPROVER_assert(p[pl + gt] == tail_before, "C06: check_tag changes nothing behind plaintext[0..len) (in place: the tag bytes)");
  if (pl) {
    __CPROVER_assert(same ==> p[tjv_k] == before, "C04: accept leaves every plaintext byte unchanged");
    __CPROVER_assert(!same ==> p[tjv_k] == 0, "C04: reject zeroes every plaintext byte");
  }
}
