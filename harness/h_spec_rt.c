/* Specification-level lemmas (no code of /repo involved; they connect the two per-function equivalences
   "encrypt == SpecEnc" and "decrypt == SpecDec" to the round-trip statements of C01/C03/C08), proved for EVERY
   permutation function and every message length with a loop contract on the lock-step loop below:
     RT  (DIR=0): SpecDec(SpecEnc(m)) = m and both automata end in the same state (hence the same tag: accept).
     RT2 (DIR=1): for an arbitrary ciphertext c, SpecEnc(SpecDec(c)) = c and the states agree, i.e. the tag decrypt
                  recomputes is the tag encryption yields for the recovered plaintext (C03 'if and only if').
   MODE=MD_ENC/MD_DEC pair (AEAD, plaintext absorbed) or MD_KS/MD_KS (SIV keystream pass).
   The second automaton gets the first one's permutation result iff it calls the permutation on the same input
   (functional consistency of an arbitrary deterministic permutation), otherwise an unconstrained value. */
#include "tjv.h"
#include "tick.h"
#ifndef DIR
#define DIR 0
#endif
#ifndef SIVKS
#define SIVKS 0
#endif
void harness(void)
{
  size_t len = nondet_size();
  __CPROVER_assume(len <= TJV_MAXLEN);
  uint8_t *in = malloc(len); __CPROVER_assume(in);
  uint32_t A[4], B[4];                  /* state of the first / second automaton */
  A[0] = nondet_u32(); A[1] = nondet_u32(); A[2] = nondet_u32(); A[3] = nondet_u32();
  B[0] = A[0]; B[1] = A[1]; B[2] = A[2]; B[3] = A[3];
  uint8_t dom = SIVKS ? 0xD0 : 0x50;
  int modeA = SIVKS ? MD_KS : (DIR == 0 ? MD_ENC : MD_DEC), modeB = SIVKS ? MD_KS : (DIR == 0 ? MD_DEC : MD_ENC);
  size_t pos = 0;
  while (pos < len)
    __CPROVER_assigns(pos, A[0], A[1], A[2], A[3], B[0], B[1], B[2], B[3])
    __CPROVER_loop_invariant(pos <= len && A[0] == B[0] && A[1] == B[1] && A[2] == B[2] && A[3] == B[3])
    __CPROVER_decreases(len - pos)
  {
    uint32_t eA[4], eB[4], pA[4], pB[4];
    size_t n = len - pos; if (n > 4) n = 4;
    TJV_REACH_HERE("after entering the lock-step loop");
    eA[0] = A[0]; eA[1] = A[1] ^ dom; eA[2] = A[2]; eA[3] = A[3];      /* = tjv_expect(eA, A, dom) */
    pA[0] = nondet_u32(); pA[1] = nondet_u32(); pA[2] = nondet_u32(); pA[3] = nondet_u32();
    /* first automaton consumes in[pos..pos+n) and produces the block o1 */
    uint8_t o1[4] = {0, 0, 0, 0}, o2[4] = {0, 0, 0, 0};
    uint32_t mask = (n == 4) ? 0xFFFFFFFFu : ((1u << (8 * n)) - 1u);
    uint32_t w = tjv_ld(in + pos, n);
    uint32_t ow = (w ^ pA[2]) & mask;
    o1[0] = (uint8_t)ow; o1[1] = (uint8_t)(ow >> 8); o1[2] = (uint8_t)(ow >> 16); o1[3] = (uint8_t)(ow >> 24);
    (void)tjv_stream_post(A, pA, modeA, in, len, pos, 0);
    /* second automaton consumes o1 */
    eB[0] = B[0]; eB[1] = B[1] ^ dom; eB[2] = B[2]; eB[3] = B[3];      /* = tjv_expect(eB, B, dom) */
    _Bool same = eA[0] == eB[0] && eA[1] == eB[1] && eA[2] == eB[2] && eA[3] == eB[3];
    pB[0] = same ? pA[0] : nondet_u32(); pB[1] = same ? pA[1] : nondet_u32(); pB[2] = same ? pA[2] : nondet_u32(); pB[3] = same ? pA[3] : nondet_u32();
    uint32_t w2 = tjv_ld(o1, n);
    uint32_t ow2 = (w2 ^ pB[2]) & mask;
    (void)tjv_stream_post(B, pB, modeB, o1, n, 0, 0);
    __CPROVER_assert(ow2 == (w & mask), "spec lemma RT: the second automaton recovers exactly the first one's input block");
    pos += n;
  }
  TJV_REACH_HERE("after the lock-step loop");
  __CPROVER_assert(A[0] == B[0] && A[1] == B[1] && A[2] == B[2] && A[3] == B[3],
                   "spec lemma RT: both automata reach the same state, hence compute the same tag");
}
