/* Leaf contracts of tinyjambu_{setup,absorb,generate_tag}_NNN against the spec monitor (permutation = contract stub).
   These are exactly the contracts the leaf stubs in stubs/mon.c assume in the caller proofs:
     pre : key words = M.kinv, (absorb, tag) state words = M.cur, arbitrary arguments
     post: the spec automaton has completed the step, state words = M.cur, key words unchanged,
           tag bytes = LE(M.tag_lo) || LE(M.tag_hi); input bytes unmodified. */
#include "tjv.h"
#include "mon.h"
#include "backend/tinyjambu-aead-common.h"
size_t tjw_size; uint8_t tjw_dom; unsigned tjw_rounds;
void harness(void)
{
  STATE_T st;
  uint32_t k0[KW];
  for (int i = 0; i < KW; i++) { st.k[i] = nondet_u32(); M.kinv[i] = st.k[i]; k0[i] = st.k[i]; }
  for (int i = 0; i < 4; i++) { st.s[i] = nondet_u32(); M.cur[i] = st.s[i]; }
  M.pc = 0; M.sub = 0; M.pos = 0; M.o.gout_set = 0; M.o.gidx = 0; M.o.gout = 0; M.tag_lo = 0; M.tag_hi = 0;
#if PROG == 11
  uint8_t *nonce = malloc(12); __CPROVER_assume(nonce);
  uint8_t dom = nondet_u8(); tjw_dom = dom;
  M.l_ptr = nonce; M.l_dom = dom; M.l_len = 12; M.l_rounds = 5;
  SETUP(&st, nonce, dom);
  TJV_REACH_HERE("after setup");
#elif PROG == 12
  size_t size = nondet_size(); __CPROVER_assume(size <= TJV_MAXLEN);
#ifdef TJV_BOUND
  __CPROVER_assume(size <= TJV_BOUND);
#endif
#ifdef TJV_FIXED
  size = TJV_FIXED;
#endif
#ifdef TJV_ALIGN        /* the stream starts at a nondeterministic offset 0..3 inside its object: every pointer alignment */
  unsigned aoff = nondet_uint(); __CPROVER_assume(aoff < 4);
  uint8_t *dobj = malloc(size + 3); __CPROVER_assume(dobj);
  uint8_t *data = dobj + aoff;
#else
  uint8_t *data = malloc(size); __CPROVER_assume(data);
#endif
  uint8_t dom = nondet_u8(); unsigned rounds = nondet_uint();
  tjw_size = size; tjw_dom = dom; tjw_rounds = rounds;
  M.l_ptr = data; M.l_len = size; M.l_dom = dom; M.l_rounds = rounds;
  size_t g = nondet_size(); __CPROVER_assume(g < size || size == 0);
  uint8_t dg = size ? data[g] : 0;
  ABSORB(&st, data, size, dom, rounds);
  TJV_REACH_HERE("after absorb");
  __CPROVER_assert(size == 0 || data[g] == dg, "C06: absorb leaves the input bytes unmodified");
#elif PROG == 13
  uint8_t *tag = malloc(8); __CPROVER_assume(tag);
  GENTAG(&st, tag);
  TJV_REACH_HERE("after generate_tag");
  for (int i = 0; i < 8; i++)
    __CPROVER_assert(tag[i] == (uint8_t)((i < 4 ? M.tag_lo : M.tag_hi) >> (8 * (i & 3))), "leaf: tag bytes are the two squeezed words, little-endian");
#endif
  __CPROVER_assert(tjv_done(), "leaf: spec automaton completed the step (every block consumed, no extra call)");
  __CPROVER_assert(ST_EQ_CUR(&st), "leaf: state words as in spec after the step");
  for (int i = 0; i < KW; i++) __CPROVER_assert(st.k[i] == k0[i], "leaf: key words unchanged (frame)");
}
