/* C12, UNBOUNDED in the key length: tinyjambu_hmac_finalize(state, key, keylen, out) for EVERY keylen performs exactly
     I = finalize(inner state);  [keylen > 64: D = Hash(key)];  fresh hash: update((K0 xor 0x5C..5C), 64); update(I, 32); out = finalize
   with K0 = key or D zero-padded to 64 bytes - i.e. the outer hash of RFC 2104.  Together with hmac.setkey.u (inner key block,
   mask 0x36), hmac_update == hash_update (call-through) and the hash contracts of C10/C11 this gives HMAC == RFC 2104 for every
   key length and every message chunking; the value grids (hmac.rfc2104.grid*) re-check the composition end to end. */
#include "tjv.h"
#include "TinyJAMBU.h"
static int step; static const unsigned char *key0; static size_t keylen0;
static unsigned char blk[64], dig[32], inner[32], outer[32], fed[32]; static int long_key;
void tinyjambu_hash_init(tinyjambu_hash_state_t *s)
{ (void)s; __CPROVER_assert(step == 1 || step == 13, "hmac finalize: hash (re)initialised at the right points"); step = (step == 1 && long_key) ? 10 : 3; }
void tinyjambu_hash_reinit(tinyjambu_hash_state_t *s) { tinyjambu_hash_init(s); }
void tinyjambu_hash_update(tinyjambu_hash_state_t *s, const unsigned char *in, size_t inlen)
{
  (void)s;
  if (step == 10) { __CPROVER_assert(in == key0 && inlen == keylen0, "hmac finalize: a key longer than the block is hashed whole, once"); step = 11; return; }
  if (step == 3) { __CPROVER_assert(inlen == 64, "hmac finalize: exactly one 64-byte outer key block is absorbed first"); for (int i = 0; i < 64; i++) blk[i] = in[i]; step = 4; return; }
  __CPROVER_assert(step == 4 && inlen == 32, "hmac finalize: then exactly the 32-byte inner digest is absorbed");
  for (int i = 0; i < 32; i++) fed[i] = in[i];
  step = 5;
}
void tinyjambu_hash_finalize(tinyjambu_hash_state_t *s, unsigned char *out)
{
  (void)s;
  if (step == 0) { for (int i = 0; i < 32; i++) { inner[i] = nondet_u8(); out[i] = inner[i]; } step = 1; return; }
  if (step == 11) { for (int i = 0; i < 32; i++) { dig[i] = nondet_u8(); out[i] = dig[i]; } step = 13; return; }
  __CPROVER_assert(step == 5, "hmac finalize: outer digest taken last");
  for (int i = 0; i < 32; i++) { outer[i] = nondet_u8(); out[i] = outer[i]; }
  step = 6;
}
void tinyjambu_hash_free(tinyjambu_hash_state_t *s) { (void)s; }
void tinyjambu_hash(unsigned char *o, const unsigned char *i, size_t n) { (void)o; (void)i; (void)n; __CPROVER_assert(0, "hmac finalize: one-shot hash not used"); }
size_t tjw_keylen;
void harness(void)
{
  size_t keylen = nondet_size(); __CPROVER_assume(keylen <= TJV_MAXLEN); tjw_keylen = keylen;
  unsigned char *key = malloc(keylen), *out = malloc(32); __CPROVER_assume(key && out);
  size_t g = nondet_size(); __CPROVER_assume(g < 64);
  unsigned char kg = (g < keylen) ? key[g] : 0;
  tinyjambu_hmac_state_t st;
  key0 = key; keylen0 = keylen; long_key = keylen > 64; step = 0;
  tinyjambu_hmac_finalize(&st, key, keylen, out);
  TJV_REACH_HERE("after hmac_finalize");
  __CPROVER_assert(step == 6, "hmac finalize: protocol completed");
  unsigned char k0 = long_key ? (g < 32 ? dig[g] : 0) : kg;
  __CPROVER_assert(blk[g] == (unsigned char)(k0 ^ 0x5C), "C12: outer key block byte == K0[g] xor opad");
  __CPROVER_assert(g >= 32 || (fed[g] == inner[g] && out[g] == outer[g]), "C12: outer hash absorbs the inner digest; result is the outer digest");
}
