/* TinyJAMBU-Hash API against the MDPH spec monitor (C10, C11, C06).
   WHICH: 0 update (from an ARBITRARY valid prior state), 1 finalize (arbitrary valid state), 2 init, 3 reinit
          (from arbitrary bytes), 4 one-shot tinyjambu_hash.
   -DTJV_POSN=p -DTJV_LEN=n: concrete shapes for the bounded grid; -DTJV_ALIGN: input at a nondeterministic offset 0..3
   inside its object (pointer alignment is visible to code that casts pointers to integers). */
#include "tjv.h"
#include "hmon.h"
#include "TinyJAMBU.h"
size_t tjw_inlen; unsigned tjw_posn, tjw_off;
size_t tjv_c;   /* ghost index used by the loop contract of tinyjambu_clean */
uint8_t tjw_in[40];
static void view_from_state(tjv_hash_view_t *pv)
{
  for (int i = 0; i < 4; i++) { G.L[i] = pv->state.s[i]; G.Rinv[i] = pv->state.k[i]; }
  G.n = pv->posn; G.half = 0; G.final_done = 0;
  for (unsigned j = 0; j < 16; j++) G.buf[j] = ((uint8_t *)&pv->state.k[4])[j];
}
void harness(void)
{
  tjv_hash_obj_t obj;                                 /* exact-size (56-byte) object with arbitrary contents, see hmon.h */
  __CPROVER_assert(sizeof(obj) == sizeof(tinyjambu_hash_state_t), "tjv aux: state object has the size of the public type");
  tinyjambu_hash_state_t *st = (tinyjambu_hash_state_t *)&obj;
  tjv_hash_view_t *pv = &obj.p;
#if WHICH == 0 || WHICH == 4
  size_t inlen = nondet_size(); __CPROVER_assume(inlen <= TJV_MAXLEN);
#ifdef TJV_LEN
  inlen = TJV_LEN;
#endif
  tjw_inlen = inlen;
#ifdef TJV_ALIGN
  unsigned off = nondet_uint(); __CPROVER_assume(off < 4); tjw_off = off;
  uint8_t *inobj = malloc(inlen + 4); __CPROVER_assume(inobj);
  uint8_t *in = inobj + off;
#else
  uint8_t *in = malloc(inlen); __CPROVER_assume(in);
#endif
#ifdef TJV_NULLIN
  if (inlen == 0) in = 0;                             /* C06/C11: NULL with length 0 is an empty update */
#endif
#ifdef TJV_LEN
  TJW_BYTES(tjw_in, in, inlen, 40);
#endif
  size_t gi = nondet_size(); __CPROVER_assume(gi < inlen || inlen == 0);
  uint8_t in_g = inlen ? in[gi] : 0;
  G.in = in; G.inlen = inlen; G.pos = 0;
#endif
#if WHICH == 0
  __CPROVER_assume(pv->posn < 16);                   /* representation invariant */
#ifdef TJV_POSN
  pv->posn = TJV_POSN;                               /* concrete (assignment, so that symex folds every length test) */
#endif
  tjw_posn = pv->posn;
  view_from_state(pv); G.final_allowed = 0;
  size_t g = nondet_size(); __CPROVER_assume(g < 16);
  tinyjambu_hash_update(st, in, inlen);
  TJV_REACH_HERE("after hash_update");
  size_t rem = G.inlen - G.pos;
  __CPROVER_assert(G.half == 0 && G.n + rem < 16, "hash: spec monitor consumed every full block");
  __CPROVER_assert(pv->posn == G.n + rem, "hash: posn = number of buffered bytes (< 16)");
  __CPROVER_assert(pv->state.s[0] == G.L[0] && pv->state.s[1] == G.L[1] && pv->state.s[2] == G.L[2] && pv->state.s[3] == G.L[3], "hash: L as in spec after update");
  __CPROVER_assert(pv->state.k[0] == G.Rinv[0] && pv->state.k[1] == G.Rinv[1] && pv->state.k[2] == G.Rinv[2] && pv->state.k[3] == G.Rinv[3], "hash: R as in spec after update");
  if (g < G.n + rem)
    __CPROVER_assert(((uint8_t *)&pv->state.k[4])[g] == (g < G.n ? G.buf[g] : in[G.pos + (g - G.n)]), "hash: buffered bytes are the unconsumed tail of the byte stream");
  __CPROVER_assert(inlen == 0 || in[gi] == in_g, "C06: hash_update leaves its input unmodified");
#elif WHICH == 1
  __CPROVER_assume(pv->posn < 16);
  tjw_posn = pv->posn;
  view_from_state(pv); G.final_allowed = 1; G.in = 0; G.inlen = 0; G.pos = 0;
  uint8_t *out = malloc(32); __CPROVER_assume(out);
  tinyjambu_hash_finalize(st, out);
  TJV_REACH_HERE("after hash_finalize");
  __CPROVER_assert(G.final_done && G.half == 0, "hash: exactly one padded final compression with domain 2");
  for (int i = 0; i < 4; i++) {
    uint32_t r = ~G.Rinv[i];
    for (int j = 0; j < 4; j++) {
      __CPROVER_assert(out[4 * i + j] == (uint8_t)(G.L[i] >> (8 * j)), "hash: digest bytes 0..15 are L, little-endian");
      __CPROVER_assert(out[16 + 4 * i + j] == (uint8_t)(r >> (8 * j)), "hash: digest bytes 16..31 are R, little-endian");
    }
  }
#elif WHICH == 2 || WHICH == 3
#if WHICH == 2
  tinyjambu_hash_init(st);
#else
  tinyjambu_hash_reinit(st);
#endif
  TJV_REACH_HERE("after hash_init");
  __CPROVER_assert(pv->state.s[0] == 0 && pv->state.s[1] == 0 && pv->state.s[2] == 0 && pv->state.s[3] == 0, "hash: init sets L = 0 whatever the object held");
  __CPROVER_assert(pv->state.k[0] == 0xFFFFFFFFu && pv->state.k[1] == 0xFFFFFFFFu && pv->state.k[2] == 0xFFFFFFFFu && pv->state.k[3] == 0xFFFFFFFFu, "hash: init sets R = 0 (stored inverted)");
  __CPROVER_assert(pv->posn == 0, "hash: init empties the block buffer whatever the object held");
#elif WHICH == 4
  for (int i = 0; i < 4; i++) { G.L[i] = 0; G.Rinv[i] = 0xFFFFFFFFu; }
  G.n = 0; G.half = 0; G.final_done = 0; G.final_allowed = 1;
  uint8_t *out = malloc(32); __CPROVER_assume(out);
  tinyjambu_hash(out, in, inlen);
  TJV_REACH_HERE("after one-shot hash");
  __CPROVER_assert(G.final_done && G.half == 0 && G.pos == G.inlen, "hash: every block compressed, then exactly one padded final compression");
  for (int i = 0; i < 4; i++) {
    uint32_t r = ~G.Rinv[i];
    for (int j = 0; j < 4; j++) {
      __CPROVER_assert(out[4 * i + j] == (uint8_t)(G.L[i] >> (8 * j)), "hash: digest bytes 0..15 are L, little-endian");
      __CPROVER_assert(out[16 + 4 * i + j] == (uint8_t)(r >> (8 * j)), "hash: digest bytes 16..31 are R, little-endian");
    }
  }
  __CPROVER_assert(inlen == 0 || in[gi] == in_g, "C06: tinyjambu_hash leaves its input unmodified");
#endif
}
