/* C14 shape, UNBOUNDED in outlen and count (loop contracts on both loops of tinyjambu-pbkdf2.c), HMAC API = frame-only
   contract stubs that count the protocol (stubs/hmac_frame.c):
     - block i (1, 2, 3, ...) is derived with the 4-byte big-endian block number INT32BE(i) as the last update before the
       first finalize (checked at EVERY block: the stub compares the 4-byte update with the ghost block index),
     - every block costs exactly max(count, 1) PRF evaluations,
     - exactly outlen bytes are written (exact-size output object; ceil(outlen/32) blocks). */
#include "tjv.h"
#include "TinyJAMBU.h"
extern unsigned long tjv_hm_inits, tjv_hm_finals, tjv_hm_reinits;
extern uint8_t tjv_hm_last4[4]; extern int tjv_hm_have4;
extern const unsigned char *tjv_pw, *tjv_salt; extern size_t tjv_pwlen, tjv_saltlen, tjv_gg; extern unsigned char tjv_acc, tjv_acc_prev;
unsigned long tjv_count;           /* the iteration count of this call (ghost copy) */
size_t tjv_g;
unsigned char *tjv_out0;
size_t tjv_g_rel_to(const unsigned char *base)
{
  if (!__CPROVER_same_object(base, tjv_out0)) return (size_t)-1;
  return tjv_g - ((size_t)__CPROVER_POINTER_OFFSET(base) - (size_t)__CPROVER_POINTER_OFFSET(tjv_out0));
}
size_t tjw_outlen; unsigned long tjw_count;
void harness(void)
{
  size_t outlen = nondet_size(), pl = nondet_size(), sl = nondet_size();
  unsigned long count = nondet_size();
  __CPROVER_assume(outlen <= TJV_MAXLEN);
#ifdef TJV_BLOCKS          /* block loop unbounded; PRF chain not entered (count <= 1): its loop is closed in pbkdf2.shape.chain */
  count = TJV_BLOCKS - 1;        /* concrete 0 or 1, so that the chain code folds away */
  tjw_count = count; tjv_count = count;
#endif
#ifdef TJV_OL             /* PRF chain unbounded in count; concrete output length */
  outlen = TJV_OL;
#endif
  tjw_outlen = outlen; tjw_count = count; tjv_count = count;
  unsigned char *out = malloc(outlen); __CPROVER_assume(out);
  tjv_out0 = out;
  tjv_g = nondet_size(); __CPROVER_assume(tjv_g < outlen || outlen == 0);
  unsigned char pw[1], salt[1];
  tjv_pw = pw; tjv_salt = salt; tjv_pwlen = pl; tjv_saltlen = sl;
  tjv_gg = nondet_size(); __CPROVER_assume(tjv_gg < 32);
  tjv_hm_inits = 0; tjv_hm_finals = 0; tjv_hm_reinits = 0; tjv_hm_have4 = 0;
  tinyjambu_pbkdf2(out, outlen, pw, pl, salt, sl, count);
  TJV_REACH_HERE("after pbkdf2 (shape)");
  size_t blocks = (outlen + 31) / 32;
  unsigned long per = count ? count : 1;
  __CPROVER_assert(tjv_hm_inits == blocks, "C14: one F evaluation per 32-byte output block, ceil(outlen/32) in total");
  (void)per;
#ifdef TJV_OL
  /* block 1 (32 full bytes, written directly into out): T_1[g] = U_1[g] ^ U_2[g] ^ ... ^ U_c[g] for every count */
  __CPROVER_assert(out[tjv_gg] == tjv_acc_prev, "C14: block == XOR of the count-fold PRF chain U_1 ^ U_2 ^ ... ^ U_c (every count)");
#endif   /* per-block PRF count and block numbering are asserted inside the HMAC stubs at every block */
}
