/* C07 (bounded, control flow only): 2-safety self-composition on branch traces.  The function under test runs twice on
   EQUAL public inputs (lengths, counts, key-length class - all concrete here) and INDEPENDENT symbolic secrets (keys,
   nonces are public but left free, plaintext/ciphertext, tags, key material, PRNG state and entropy).  The sequences of
   branch decisions must be identical.  WHAT selects the operation. */
#include "tjv.h"
#include "TinyJAMBU.h"
#include "backend/tinyjambu-util.h"
#include "backend/tinyjambu-backend.h"
#include "hmon.h"
#define TR 1024
extern const char *tjv_tr[3][TR]; extern unsigned tjv_tn[3]; extern int tjv_run;
#ifndef AD
#define AD 3
#endif
#ifndef ML
#define ML 5
#endif
#ifndef KL
#define KL 20
#endif
#ifndef NNN
#define NNN 128
#endif
#define CAT_(a, b, c) a##b##c
#define CAT(a, b, c) CAT_(a, b, c)
static void fill(uint8_t *p, unsigned n) { for (unsigned i = 0; i < n; i++) p[i] = nondet_u8(); }
#if WHAT == 6
#include "prng_view.h"
static size_t ct_cb(void *u, unsigned char *buf, size_t size) { (void)u; for (int i = 0; i < 32; i++) buf[i] = nondet_u8(); return size; }
#endif
static void once(void)
{
#if WHAT == 0          /* check_tag: tags and plaintext secret */
  uint8_t p[ML + 1], t1[8], t2[8]; fill(p, ML); fill(t1, 8); fill(t2, 8);
  (void)tinyjambu_aead_check_tag(p, ML, t1, t2, 8);
#elif WHAT == 1        /* AEAD / SIV encrypt */
  uint8_t k[32], n[12], ad[AD + 1], m[ML + 1], c[ML + 9]; size_t cl; fill(k, 32); fill(n, 12); fill(ad, AD); fill(m, ML);
  CAT(tinyjambu_, NNN, MODE_ENC)(c, &cl, m, ML, ad, AD, n, k);
#elif WHAT == 2        /* AEAD / SIV decrypt (accept and reject paths: the verdict is public, the code path must not depend on it either) */
  uint8_t k[32], n[12], ad[AD + 1], c[ML + 9], m[ML + 1]; size_t ml; fill(k, 32); fill(n, 12); fill(ad, AD); fill(c, ML + 8);
  (void)CAT(tinyjambu_, NNN, MODE_DEC)(m, &ml, c, ML + 8, ad, AD, n, k);
#elif WHAT == 3        /* hash: message secret */
  uint8_t m[ML + 1], d[32]; fill(m, ML);
  tjv_hash_obj_t so; tinyjambu_hash_state_t *stp = (tinyjambu_hash_state_t *)&so;   /* field-sensitive state object, see hmon.h */
#define st (*stp)
  tinyjambu_hash_init(&st); tinyjambu_hash_update(&st, m, AD < ML ? AD : ML); tinyjambu_hash_update(&st, m + (AD < ML ? AD : ML), ML - (AD < ML ? AD : ML)); tinyjambu_hash_finalize(&st, d);
#elif WHAT == 4        /* HMAC: key and message secret, key LENGTH public */
  uint8_t key[KL + 1], m[ML + 1], d[32]; fill(key, KL); fill(m, ML);
  tinyjambu_hmac(d, key, KL, m, ML);
#elif WHAT == 6        /* PRNG generate: V, C and the entropy bytes secret; sizes, counter and limit public */
  prng_obj_t po; prng_view_t *pv = &po.p;
  fill(pv->V, 32); fill(pv->C, 32); pv->reseed_counter = AD; pv->reseed_limit = KL; pv->callback = ct_cb; pv->user_data = 0;
  uint8_t o[ML + 1];
  tinyjambu_prng_generate((tinyjambu_prng_state_t *)&po, o, ML);
#elif WHAT == 7        /* HKDF extract + two expand calls: key material, salt and info contents secret; all lengths public */
  uint8_t key[KL + 1], salt[AD + 1], info[4], o[ML + 1]; fill(key, KL); fill(salt, AD); fill(info, 4);
  { struct { unsigned char prk[32], out[32], counter, posn, tail[6]; } ho;      /* field-sensitive 72-byte state object */
    tinyjambu_hkdf_extract((tinyjambu_hkdf_state_t *)&ho, key, KL, salt, AD);
    (void)tinyjambu_hkdf_expand((tinyjambu_hkdf_state_t *)&ho, info, 4, o, ML / 2);
    (void)tinyjambu_hkdf_expand((tinyjambu_hkdf_state_t *)&ho, info, 4, o + ML / 2, ML - ML / 2); }
#elif WHAT == 8        /* PBKDF2: password and salt contents secret; lengths, count and outlen public */
  uint8_t pw[KL + 1], salt[AD + 1], o[ML + 1]; fill(pw, KL); fill(salt, AD);
  tinyjambu_pbkdf2(o, ML, pw, KL, salt, AD, 2);
#elif WHAT == 5        /* permutation: state and key secret, round count public */
  CAT(tinyjambu_, NNN, _state_t) s; for (int i = 0; i < 4; i++) s.s[i] = nondet_u32(); for (int i = 0; i < NNN / 32; i++) s.k[i] = nondet_u32();
  CAT(tinyjambu_permutation_, NNN, )(&s, ML);
#endif
}
int main(void)
{
  tjv_run = 0; once();
  tjv_run = 1; once();
  tjv_run = 2;
  TJV_REACH_HERE("after both runs");
  __CPROVER_assert(tjv_tn[0] > 0 || WHAT == 5, "tjv aux: branch events were recorded");
  __CPROVER_assert(tjv_tn[0] == tjv_tn[1] && tjv_tn[0] <= TR, "C07: same number of branch events for equal public inputs, whatever the secrets");
  _Bool same = 1;
  for (unsigned i = 0; i < TR; i++) if (i < tjv_tn[0]) same = same & (tjv_tr[0][i] == tjv_tr[1][i]);
  __CPROVER_assert(same, "C07: same branch decisions for equal public inputs, whatever the secrets");
  return 0;
}
